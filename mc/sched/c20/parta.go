package c20

// Part (a) of C20: the closed timing loop between the real Signaller.execute() and the real feeds
// module.  Explicit-state, level-synchronous search: one level = one second of the daemon's clock
// ("tick"), with a poll sub-step (the daemon's Start-loop body under a virtual clock, the price
// service answering with every combination from a finite menu, every latency from a finite set for
// an emitted submission) and, on block ticks, a block sub-step (due submissions delivered to the
// real MsgSubmitSignalPrices handler, then the whole-app EndBlocker/BeginBlocker).
//
// States are portable between workers: a state is the content difference of the tracked KV stores
// (feeds, oracle) against a per-configuration background chain (the same block schedule without any
// submission) plus the in-flight submissions.  Every worker owns one real application and advances
// its own copy of the background chain in lock-step, so the cache-layer depth stays constant however
// long the horizon is.  Violating paths and witness paths are re-executed linearly (no overlays) on
// a fresh application and must reproduce.

import (
	"crypto/sha256"
	"encoding/binary"
	"encoding/hex"
	"fmt"
	"math/big"
	"sort"
	"strconv"
	"strings"
	"sync"
	"sync/atomic"
	"time"

	sdk "github.com/cosmos/cosmos-sdk/types"

	bothan "github.com/bandprotocol/bothan/bothan-api/client/go-client/proto/bothan/v1"

	"github.com/bandprotocol/chain/v3/grogu/signaller"
	"github.com/bandprotocol/chain/v3/grogu/submitter"
	"github.com/bandprotocol/chain/v3/pkg/logger"
	bandtesting "github.com/bandprotocol/chain/v3/testing"
	feedskeeper "github.com/bandprotocol/chain/v3/x/feeds/keeper"
	feedstypes "github.com/bandprotocol/chain/v3/x/feeds/types"
	oracletypes "github.com/bandprotocol/chain/v3/x/oracle/types"
	restaketypes "github.com/bandprotocol/chain/v3/x/restake/types"
	"github.com/bandprotocol/chain/v3/zzverif/engine"
	"github.com/bandprotocol/chain/v3/zzverif/vsched"
	"github.com/bandprotocol/chain/v3/zzverif/vsync"
)

// ---- constants of the statement ---------------------------------------------------------------

// shipped timing configuration, read from cmd/grogu/cmd/run.go of the tree under test (flag defaults
// of distribution-start-pct / distribution-offset-pct, polling interval passed to signaller.New);
// the package itself cannot be linked into this binary (it is not instrumented).
var (
	shippedStartPct  = uint64(50)
	shippedOffsetPct = uint64(30)
)

const (
	pollSeconds = int64(1)
	// promptness slack of the statement: a change is submitted within cooldown + buffer + poll seconds
	promptBuffer = int64(3)

	basePrice = uint64(1_000_000_000_000)
)

// wall clock (daemon clock) of tick 0, the same for every configuration
var wall0 = engine.GenesisTime.Unix() + 200

// clockA is the daemon's clock (unix seconds) during part (a); read through vsched.ClockOverride by
// the instrumented time.Now().
var clockA int64

func installClock() {
	vsched.ClockOverride = func() time.Time { return time.Unix(atomic.LoadInt64(&clockA), 0) }
}

// ---- configuration ----------------------------------------------------------------------------

type sigSpec struct {
	ID    string `json:"id"`
	Power int64  `json:"power"`
}

// CfgA is one configuration of the timing-loop search.
type CfgA struct {
	Name        string    `json:"name"`
	Val         int       `json:"validator"`        // index into bandtesting.Validators (hash-derived send offsets differ)
	Vote        []sigSpec `json:"vote"`             // standing vote at the base state (power 1 -> MaxInterval, 2 -> MaxInterval/2 ...)
	Revote      []sigSpec `json:"revote,omitempty"` // replaces the vote in the first block at/after RevoteTick
	RevoteTick  int       `json:"revote_tick,omitempty"`
	UpdateEvery int64     `json:"current_feeds_update_interval_blocks"`
	Cooldown    int64     `json:"cooldown"`
	MinInterval int64     `json:"min_interval"`
	MaxInterval int64     `json:"max_interval"`
	Grace       int64     `json:"grace"`
	DevBP       int64     `json:"deviation_bp"`
	Period      int       `json:"block_period_s"`
	Phase       int       `json:"block_phase"`  // blocks are executed at ticks = Phase mod Period
	Lag         int       `json:"header_lag_s"` // block header time = wall time of execution - Lag
	PollFirst   bool      `json:"poll_before_block"`
	Lat         []int     `json:"latency_s"`
	Menu        []string  `json:"menu"`
	Menu2       []string  `json:"menu_second_signal,omitempty"`    // menu of every signal but the (alphabetically) first; nil = Menu
	MaxMiss     int       `json:"max_consecutive_missing_answers"` // a signal is absent from at most this many consecutive answers
	Horizon     int       `json:"horizon_ticks"`
}

func (c *CfgA) val() bandtesting.Account { return bandtesting.Validators[c.Val] }

func (c *CfgA) isBlockTick(k int) bool { return k >= c.Phase && (k-c.Phase)%c.Period == 0 }

// ---- price-service answers ----------------------------------------------------------------------

type answer struct {
	Missing bool
	Status  feedstypes.SignalPriceStatus
	Price   uint64
}

// menuAnswer maps a menu name to an answer for deviation threshold d (basis points).
//
//	A      base price                      Ahi   exactly d bp above A        Ahi-1  one unit below Ahi
//	Adn    at least d bp below Ahi (exactly d when divisible)    Adn+1  one unit above Adn
//	UNAV / UNSUP  status answers           MISS  signal absent from the response
func menuAnswer(name string, d int64) answer {
	a := basePrice
	hi := a + a/10000*uint64(d)
	step := (hi*uint64(d) + 9999) / 10000
	dn := hi - step
	av := feedstypes.SIGNAL_PRICE_STATUS_AVAILABLE
	switch name {
	case "A":
		return answer{Status: av, Price: a}
	case "Ahi":
		return answer{Status: av, Price: hi}
	case "Ahi-1":
		return answer{Status: av, Price: hi - 1}
	case "Adn":
		return answer{Status: av, Price: dn}
	case "Adn+1":
		return answer{Status: av, Price: dn + 1}
	case "UNAV":
		return answer{Status: feedstypes.SIGNAL_PRICE_STATUS_UNAVAILABLE}
	case "UNSUP":
		return answer{Status: feedstypes.SIGNAL_PRICE_STATUS_UNSUPPORTED}
	case "MISS":
		return answer{Missing: true}
	}
	panic("unknown menu entry " + name)
}

func toBothan(id string, a answer) *bothan.Price {
	p := &bothan.Price{SignalId: id, Price: a.Price}
	switch a.Status {
	case feedstypes.SIGNAL_PRICE_STATUS_AVAILABLE:
		p.Status = bothan.Status_STATUS_AVAILABLE
	case feedstypes.SIGNAL_PRICE_STATUS_UNAVAILABLE:
		p.Status = bothan.Status_STATUS_UNAVAILABLE
	case feedstypes.SIGNAL_PRICE_STATUS_UNSUPPORTED:
		p.Status = bothan.Status_STATUS_UNSUPPORTED
	}
	return p
}

// deviatedExact: |new-old| * 10^4 >= d * old in exact arithmetic (statement: "moves by at least the
// feed's deviation"); a zero old price deviates from every non-zero price.
func deviatedExact(d int64, old, nw uint64) bool {
	if old == 0 {
		return nw != 0
	}
	diff := new(big.Int).Sub(new(big.Int).SetUint64(nw), new(big.Int).SetUint64(old))
	diff.Abs(diff)
	diff.Mul(diff, big.NewInt(10000))
	return diff.Cmp(new(big.Int).Mul(big.NewInt(d), new(big.Int).SetUint64(old))) >= 0
}

// assignedOffsetPct: the hash-derived send slot (percent of the interval) of the statement's
// quantifier, computed independently (coverage labels only, never part of a verdict).
func assignedOffsetPct(val sdk.ValAddress, ts int64) int64 {
	var b8 [8]byte
	binary.BigEndian.PutUint64(b8[:], uint64(ts))
	h := sha256.Sum256(append(append([]byte{}, val.Bytes()...), b8[:]...))
	return int64(binary.BigEndian.Uint64(h[:8])%30 + 50) // statement: send slot within 50-80 % of the interval
}

// ---- state --------------------------------------------------------------------------------------

type flight struct {
	Prices []feedstypes.SignalPrice // sorted by signal id
	MsgTs  int64                    // MsgSubmitSignalPrices.Timestamp: the daemon's clock at hand-off
	Due    int                      // first tick at which a block may include it
}

func (f flight) key() string {
	var sb strings.Builder
	fmt.Fprintf(&sb, "%d@%d[", f.Due, f.MsgTs)
	for _, p := range f.Prices {
		fmt.Fprintf(&sb, "%s:%d:%d,", p.SignalID, p.Status, p.Price)
	}
	sb.WriteString("]")
	return sb.String()
}

type kvDelta struct {
	Store string
	Key   string // raw bytes
	Val   []byte // nil = deleted
}

type pnode struct {
	parent *pnode
	ev     string
}

func (p *pnode) path() []string {
	var rev []string
	for q := p; q != nil; q = q.parent {
		rev = append(rev, q.ev)
	}
	for i, j := 0, len(rev)-1; i < j; i, j = i+1, j-1 {
		rev[i], rev[j] = rev[j], rev[i]
	}
	return rev
}

type stateA struct {
	ov        []kvDelta            // tracked stores: difference against the background chain of the same level
	chainHash string               // hash of the full content of the tracked stores
	fl        []flight             // in-flight submissions, sorted by key
	dm        *signaller.Signaller // the daemon as the last poll left it (immutable; nil before the first poll)
	dmKey     string               // daemonMemoryKey(dm)
	miss      map[string]int       // consecutive polls at which the signal was requested and absent from the answer (immutable)
	p         *pnode
}

func (s *stateA) key() string {
	var sb strings.Builder
	sb.WriteString(s.chainHash)
	for _, f := range s.fl {
		sb.WriteString("|")
		sb.WriteString(f.key())
	}
	sb.WriteString(missKey(s.miss))
	if s.dmKey != "" {
		sb.WriteString("|daemon:")
		sb.WriteString(s.dmKey)
	}
	return sb.String()
}

func missKey(m map[string]int) string {
	var ids []string
	for id, n := range m {
		if n > 0 {
			ids = append(ids, fmt.Sprintf("%s~%d", id, n))
		}
	}
	sort.Strings(ids)
	return "|miss:" + strings.Join(ids, ",")
}

// nextMiss: streaks after a poll that requested req and got the answers given.
func nextMiss(old map[string]int, req []string, given map[string]answer) map[string]int {
	var out map[string]int
	for _, id := range req {
		if given[id].Missing {
			if out == nil {
				out = map[string]int{}
			}
			out[id] = old[id] + 1
		}
	}
	return out
}

func (s *stateA) pending() map[string]bool {
	m := map[string]bool{}
	for _, f := range s.fl {
		for _, p := range f.Prices {
			m[p.SignalID] = true
		}
	}
	return m
}

var trackedStores = []string{feedstypes.StoreKey, oracletypes.StoreKey}

// ---- per-worker machinery -----------------------------------------------------------------------

type viol struct {
	fp, detail string
}

type stepOut struct {
	labels []string
	viols  []viol
}

func (o *stepOut) saw(l string) { o.labels = append(o.labels, l) }
func (o *stepOut) violate(fp, f string, a ...any) {
	o.viols = append(o.viols, viol{fp, fmt.Sprintf(f, a...)})
}

type workerA struct {
	w  *engine.World
	qs feedstypes.QueryServer
	lg *logger.Logger
}

func newWorkerA() *workerA {
	w := engine.NewWorld()
	return &workerA{w: w, qs: feedskeeper.NewQueryServer(w.App.FeedsKeeper), lg: logger.VerifNop()}
}

// chainQuerier answers the daemon's FeedQuerier from the real query server on one context.
type chainQuerier struct {
	qs  feedstypes.QueryServer
	ctx sdk.Context
}

func (q chainQuerier) QueryValidValidator(v sdk.ValAddress) (*feedstypes.QueryValidValidatorResponse, error) {
	return q.qs.ValidValidator(q.ctx, &feedstypes.QueryValidValidatorRequest{Validator: v.String()})
}
func (q chainQuerier) QueryValidatorPrices(v sdk.ValAddress) (*feedstypes.QueryValidatorPricesResponse, error) {
	return q.qs.ValidatorPrices(q.ctx, &feedstypes.QueryValidatorPricesRequest{Validator: v.String()})
}
func (q chainQuerier) QueryParams() (*feedstypes.QueryParamsResponse, error) {
	return q.qs.Params(q.ctx, &feedstypes.QueryParamsRequest{})
}
func (q chainQuerier) QueryCurrentFeeds() (*feedstypes.QueryCurrentFeedsResponse, error) {
	return q.qs.CurrentFeeds(q.ctx, &feedstypes.QueryCurrentFeedsRequest{})
}

// priceService is the fake Bothan client of part (a): the answer of every requested signal is the
// menu entry selected by the current choice vector (indexed by the alphabetical rank of the signal
// among the requested ones).
type priceService struct {
	c         *CfgA
	choice    []int
	requested []string // sorted ids of the last request
	called    bool
	given     map[string]answer
}

func (p *priceService) menuOf(rank int, id string) []string {
	if p.c.Menu2 != nil && id != firstSignal(p.c) {
		return p.c.Menu2
	}
	return p.c.Menu
}

func firstSignal(c *CfgA) string {
	ids := map[string]bool{}
	for _, s := range c.Vote {
		ids[s.ID] = true
	}
	for _, s := range c.Revote {
		ids[s.ID] = true
	}
	var l []string
	for id := range ids {
		l = append(l, id)
	}
	sort.Strings(l)
	return l[0]
}

func (p *priceService) GetPrices(ids []string) (*bothan.GetPricesResponse, error) {
	p.called = true
	p.requested = append([]string(nil), ids...)
	sort.Strings(p.requested)
	p.given = map[string]answer{}
	resp := &bothan.GetPricesResponse{Uuid: "c20a"}
	for i, id := range p.requested {
		k := 0
		if i < len(p.choice) {
			k = p.choice[i]
		}
		a := menuAnswer(p.menuOf(i, id)[k], p.c.DevBP)
		p.given[id] = a
		if !a.Missing {
			resp.Prices = append(resp.Prices, toBothan(id, a))
		}
	}
	return resp, nil
}
func (p *priceService) GetInfo() (*bothan.GetInfoResponse, error) {
	return &bothan.GetInfoResponse{}, nil
}
func (p *priceService) UpdateRegistry(string, string) error        { return nil }
func (p *priceService) PushMonitoringRecords(string, string) error { return nil }

// ---- base state -----------------------------------------------------------------------------------

func voteMsg(v []sigSpec) *feedstypes.MsgVote {
	var sigs []feedstypes.Signal
	for _, x := range v {
		sigs = append(sigs, feedstypes.NewSignal(x.ID, x.Power))
	}
	return feedstypes.NewMsgVote(bandtesting.Alice.Address.String(), sigs)
}

func must(res engine.TxResult, what string) {
	if !res.OK() {
		panic(fmt.Sprintf("c20 base state: %s: %v", what, res.Err))
	}
}

// build creates the base state of c on w: header of the first run block (height 4) with time
// wall0+Phase-Lag; the vote is the current feed list (updated one block period earlier), the
// validator activated in the same block, no price submitted yet (the daemon has just started).
func (c *CfgA) build(w *engine.World) sdk.Context {
	ctx := engine.Fork(w.Root)
	fk := w.App.FeedsKeeper
	fp := fk.GetParams(ctx)
	fp.GracePeriod = c.Grace
	fp.MinInterval = c.MinInterval
	fp.MaxInterval = c.MaxInterval
	fp.PowerStepThreshold = 1
	fp.CurrentFeedsUpdateInterval = 1
	fp.CooldownTime = c.Cooldown
	fp.MinDeviationBasisPoint = c.DevBP
	fp.MaxDeviationBasisPoint = c.DevBP
	fp.MaxCurrentFeeds = 4
	if err := fk.SetParams(ctx, fp); err != nil {
		panic(err)
	}
	rp := w.App.RestakeKeeper.GetParams(ctx)
	rp.AllowedDenoms = []string{"uband"}
	if err := w.App.RestakeKeeper.SetParams(ctx, rp); err != nil {
		panic(err)
	}
	// block 2 ends; block 3 gets the header time one period before the first run block
	t4 := wall0 + int64(c.Phase) - int64(c.Lag)
	t3 := t4 - int64(c.Period)
	next, br := w.Block(ctx, 1, time.Duration(t3-ctx.BlockTime().Unix())*time.Second)
	if br.Halt != "" {
		panic("c20 base block 2: " + br.Halt)
	}
	ctx = next
	must(w.Tx(ctx, 0, restaketypes.NewMsgStake(bandtesting.Alice.Address, sdk.NewCoins(sdk.NewInt64Coin("uband", 8)))), "stake")
	must(w.Tx(ctx, 0, voteMsg(c.Vote)), "vote")
	must(w.Tx(ctx, 0, oracletypes.NewMsgActivate(c.val().ValAddress)), "activate")
	next, br = w.Block(ctx, 1, time.Duration(c.Period)*time.Second) // EndBlock(3) computes the current feeds
	if br.Halt != "" {
		panic("c20 base block 3: " + br.Halt)
	}
	ctx = next
	fp = fk.GetParams(ctx)
	fp.CurrentFeedsUpdateInterval = c.UpdateEvery
	if err := fk.SetParams(ctx, fp); err != nil {
		panic(err)
	}
	if ctx.BlockTime().Unix() != t4 || ctx.BlockHeight() != 4 {
		panic(fmt.Sprintf("c20 base header %d/%d", ctx.BlockHeight(), ctx.BlockTime().Unix()))
	}
	if got := len(fk.GetCurrentFeeds(ctx).Feeds); got != len(c.Vote) {
		panic(fmt.Sprintf("c20 base: %d current feeds, want %d", got, len(c.Vote)))
	}
	if !w.App.OracleKeeper.GetValidatorStatus(ctx, c.val().ValAddress).IsActive {
		panic("c20 base: validator not active")
	}
	return ctx
}

// ---- store dumps and overlays -----------------------------------------------------------------------

type dump map[string]map[string][]byte

func (x *workerA) dumpTracked(ctx sdk.Context) dump {
	d := dump{}
	keys := x.w.App.GetKVStoreKey()
	for _, n := range trackedStores {
		m := map[string][]byte{}
		it := ctx.KVStore(keys[n]).Iterator(nil, nil)
		for ; it.Valid(); it.Next() {
			m[string(it.Key())] = append([]byte(nil), it.Value()...)
		}
		it.Close()
		d[n] = m
	}
	return d
}

func hashDump(d dump) string {
	h := sha256.New()
	var b4 [4]byte
	for _, n := range trackedStores {
		h.Write([]byte(n))
		h.Write([]byte{0})
		m := d[n]
		ks := make([]string, 0, len(m))
		for k := range m {
			ks = append(ks, k)
		}
		sort.Strings(ks)
		for _, k := range ks {
			binary.BigEndian.PutUint32(b4[:], uint32(len(k)))
			h.Write(b4[:])
			h.Write([]byte(k))
			binary.BigEndian.PutUint32(b4[:], uint32(len(m[k])))
			h.Write(b4[:])
			h.Write(m[k])
		}
	}
	return hex.EncodeToString(h.Sum(nil)[:12])
}

// diffDump lists what must be written on top of bg to obtain d.
func diffDump(d, bg dump) []kvDelta {
	var out []kvDelta
	for _, n := range trackedStores {
		dm, bm := d[n], bg[n]
		for k, v := range dm {
			if bv, ok := bm[k]; !ok || string(bv) != string(v) {
				out = append(out, kvDelta{n, k, v})
			}
		}
		for k := range bm {
			if _, ok := dm[k]; !ok {
				out = append(out, kvDelta{n, k, nil})
			}
		}
	}
	sort.Slice(out, func(i, j int) bool {
		if out[i].Store != out[j].Store {
			return out[i].Store < out[j].Store
		}
		return out[i].Key < out[j].Key
	})
	return out
}

func (x *workerA) restore(bg sdk.Context, ov []kvDelta) sdk.Context {
	ctx := engine.Fork(bg)
	keys := x.w.App.GetKVStoreKey()
	for _, d := range ov {
		st := ctx.KVStore(keys[d.Store])
		if d.Val == nil {
			st.Delete([]byte(d.Key))
		} else {
			st.Set([]byte(d.Key), d.Val)
		}
	}
	return ctx
}

func (x *workerA) otherStoresHash(ctx sdk.Context) string {
	var names []string
	for _, n := range x.w.StoreNames() {
		tracked := false
		for _, t := range trackedStores {
			if t == n {
				tracked = true
			}
		}
		if !tracked {
			names = append(names, n)
		}
	}
	return x.w.HashStores(ctx, names, nil)
}

// ---- the two sub-steps -------------------------------------------------------------------------------

type pollInfo struct {
	daemon *signaller.Signaller // the daemon after this poll
	req    []string             // requested signal ids, sorted
	given  map[string]answer    // answer per requested id
	menus  [][]string
	sizes  []int
	chosen string
}

type chainView struct {
	params  feedstypes.Params
	feeds   feedstypes.CurrentFeeds
	devOf   map[string]int64
	prices  map[string]feedstypes.ValidatorPrice // specified entries only
	isValid bool
}

func (x *workerA) view(ctx sdk.Context, c *CfgA) chainView {
	fk := x.w.App.FeedsKeeper
	v := chainView{params: fk.GetParams(ctx), feeds: fk.GetCurrentFeeds(ctx), devOf: map[string]int64{}, prices: map[string]feedstypes.ValidatorPrice{}}
	for _, f := range v.feeds.Feeds {
		v.devOf[f.SignalID] = feedstypes.CalculateDeviation(f.Power, v.params.PowerStepThreshold, v.params.MinDeviationBasisPoint, v.params.MaxDeviationBasisPoint)
	}
	if l, err := fk.GetValidatorPriceList(ctx, c.val().ValAddress); err == nil {
		for _, p := range l.ValidatorPrices {
			if p.SignalPriceStatus != feedstypes.SIGNAL_PRICE_STATUS_UNSPECIFIED {
				v.prices[p.SignalID] = p
			}
		}
	}
	v.isValid = fk.ValidateValidatorRequiredToSend(ctx, c.val().ValAddress) == nil
	return v
}

// pollOnce runs one daemon poll on ctx (read-only) with the given choice vector and judges it.
// It returns the emitted submission (nil if none) and the number of requested signals with the
// sizes of their menus.
func (x *workerA) pollOnce(ctx sdk.Context, c *CfgA, prev *signaller.Signaller, pend map[string]bool, choice []int, now int64, out *stepOut) (sub *submitter.SignalPriceSubmission, pi pollInfo) {
	var menuSizes []int
	var chosen string
	defer func() { pi.sizes, pi.chosen = menuSizes, chosen }()
	ps := &priceService{c: c, choice: choice}
	pm := &vsync.Map{}
	for id := range pend {
		pm.Store(id, struct{}{})
	}
	ch := make(chan submitter.SignalPriceSubmission, 300)
	var sg *signaller.Signaller
	if prev == nil {
		sg = signaller.New(chainQuerier{x.qs, ctx}, ps, time.Duration(pollSeconds)*time.Second, ch, x.lg, c.val().ValAddress, pm, shippedStartPct, shippedOffsetPct)
	} else {
		sg = cloneDaemon(prev) // the daemon object persists across polls; prev itself belongs to the parent state
		sg.VerifRebind(chainQuerier{x.qs, ctx}, ps, ch, pm)
	}
	pi.daemon = sg
	res := sg.VerifPoll()
	var subs []submitter.SignalPriceSubmission
	for len(ch) > 0 {
		subs = append(subs, <-ch)
	}
	if len(subs) > 1 {
		out.violate("more-than-one-submission-per-poll", "%d submissions emitted by one poll", len(subs))
	}
	if len(subs) > 0 {
		sub = &subs[0]
		sort.Slice(sub.SignalPrices, func(i, j int) bool { return sub.SignalPrices[i].SignalID < sub.SignalPrices[j].SignalID })
	}
	var names []string
	pi.req, pi.given = ps.requested, ps.given
	for i, id := range ps.requested {
		m := ps.menuOf(i, id)
		pi.menus = append(pi.menus, m)
		menuSizes = append(menuSizes, len(m))
		k := 0
		if i < len(choice) {
			k = choice[i]
		}
		names = append(names, id+"="+m[k])
	}
	chosen = strings.Join(names, ",")

	// ---- oracle (from the statement; the chain's state is read through the keepers, not through the daemon) ----
	v := x.view(ctx, c)
	inSub := map[string]feedstypes.SignalPrice{}
	if sub != nil {
		for _, p := range sub.SignalPrices {
			inSub[p.SignalID] = p
		}
	}
	if res != "executed" {
		out.saw("poll:" + res)
	}
	if !v.isValid {
		if sub != nil {
			out.violate("submission-while-not-required", "validator not bonded/active but a submission was emitted: %v", sub.SignalPrices)
		}
		return
	}
	current := map[string]feedstypes.Feed{}
	for _, f := range v.feeds.Feeds {
		current[f.SignalID] = f
	}
	for id, p := range inSub {
		if _, ok := current[id]; !ok {
			out.violate("submitted-signal-not-a-current-feed", "signal %s submitted at t=%d, current feeds %v", id, now, v.feeds.Feeds)
		}
		if pend[id] {
			out.violate("in-flight-signal-submitted-again", "signal %s submitted at t=%d while an earlier submission is in flight", id, now)
		}
		if a, ok := ps.given[id]; !ok || a.Missing || a.Status != p.Status || a.Price != p.Price {
			out.violate("submitted-price-differs-from-price-service", "signal %s: submitted (%v,%d), price service said %+v", id, p.Status, p.Price, ps.given[id])
		}
	}
	for _, f := range v.feeds.Feeds {
		id := f.SignalID
		if pend[id] {
			out.saw("hold:in-flight")
			continue
		}
		a, asked := ps.given[id]
		if !asked {
			if ps.called {
				out.violate("current-feed-not-requested", "signal %s is a current feed and not in flight but was not requested from the price service", id)
			}
			continue
		}
		_, submitted := inSub[id]
		if a.Missing {
			out.saw("answer:missing")
			if submitted {
				out.violate("submitted-price-differs-from-price-service", "signal %s submitted although missing from the answer", id)
			}
			continue
		}
		old, has := v.prices[id]
		if !has {
			// never submitted: any answer is a status change against "no price"
			if a.Status != feedstypes.SIGNAL_PRICE_STATUS_UNAVAILABLE && !submitted {
				out.violate("prompt-submission-missed:first-price", "signal %s has no on-chain price, price service answers %+v at t=%d, not submitted", id, a, now)
			}
			if submitted {
				out.saw("submit:first-price")
			}
			continue
		}
		ripe := now >= old.Timestamp+v.params.CooldownTime+promptBuffer
		statusChanged := a.Status != old.SignalPriceStatus
		deviated := !statusChanged && a.Status == feedstypes.SIGNAL_PRICE_STATUS_AVAILABLE && deviatedExact(v.devOf[id], old.Price, a.Price)
		slot := now >= old.Timestamp+f.Interval*assignedOffsetPct(c.val().ValAddress, old.Timestamp)/100
		switch {
		case (statusChanged || deviated) && ripe && a.Status != feedstypes.SIGNAL_PRICE_STATUS_UNAVAILABLE:
			if !submitted {
				why := "deviation"
				if statusChanged {
					why = "status-change"
				}
				out.violate("prompt-submission-missed:"+why, "signal %s: on-chain (%v,%d)@%d, price service (%v,%d) at t=%d (cooldown %d + buffer %d elapsed, deviation threshold %d bp), not submitted",
					id, old.SignalPriceStatus, old.Price, old.Timestamp, a.Status, a.Price, now, v.params.CooldownTime, promptBuffer, v.devOf[id])
			} else if statusChanged {
				out.saw("submit:status-change")
			} else {
				out.saw("submit:deviation")
				if new(big.Int).Mul(big.NewInt(10000), new(big.Int).SetUint64(absDiff(a.Price, old.Price))).Cmp(new(big.Int).Mul(big.NewInt(v.devOf[id]), new(big.Int).SetUint64(old.Price))) == 0 {
					out.saw("submit:deviation-exactly-at-threshold")
				}
			}
		case submitted && a.Status == feedstypes.SIGNAL_PRICE_STATUS_UNAVAILABLE:
			out.saw("submit:unavailable-close-to-deadline")
			out.saw(fmt.Sprintf("submit:unavailable-%02d-s-before-deadline", old.Timestamp+f.Interval-now))
		case submitted && slot:
			out.saw("submit:slot-reached")
			out.saw(fmt.Sprintf("slot-offset:%d", assignedOffsetPct(c.val().ValAddress, old.Timestamp)))
		case submitted:
			out.saw("submit:other")
		case (statusChanged || deviated) && !ripe:
			out.saw("hold:cooldown-not-elapsed")
		case statusChanged && a.Status == feedstypes.SIGNAL_PRICE_STATUS_UNAVAILABLE:
			out.saw("hold:unavailable-not-urgent")
		case a.Status == feedstypes.SIGNAL_PRICE_STATUS_AVAILABLE && old.SignalPriceStatus == a.Status && a.Price != old.Price:
			out.saw("hold:below-deviation-threshold")
		default:
			out.saw("hold:unchanged")
		}
	}
	return
}

func absDiff(a, b uint64) uint64 {
	if a > b {
		return a - b
	}
	return b - a
}

// blockStep delivers the due submissions of fl into the block in progress on ctx (written in place),
// applies the scheduled vote, judges, and runs the whole-app EndBlocker / next BeginBlocker.
func (x *workerA) blockStep(ctx sdk.Context, c *CfgA, tick int, fl []flight, out *stepOut) (sdk.Context, []flight) {
	val := c.val().ValAddress
	fk := x.w.App.FeedsKeeper
	T := ctx.BlockTime().Unix()
	if out == nil {
		// background chain: it only has to keep the validator active so that no store outside the tracked
		// ones ever differs from a (non-violating) explored state; every current feed is submitted as
		// soon as the chain's cooldown allows
		out = &stepOut{}
		by := map[string]feedstypes.ValidatorPrice{}
		if l, err := fk.GetValidatorPriceList(ctx, val); err == nil {
			for _, p := range l.ValidatorPrices {
				by[p.SignalID] = p
			}
		}
		cd := fk.GetParams(ctx).CooldownTime
		var ps []feedstypes.SignalPrice
		for _, f := range fk.GetCurrentFeeds(ctx).Feeds {
			if p, ok := by[f.SignalID]; !ok || p.SignalPriceStatus == feedstypes.SIGNAL_PRICE_STATUS_UNSPECIFIED || T > p.Timestamp+cd {
				ps = append(ps, feedstypes.NewSignalPrice(feedstypes.SIGNAL_PRICE_STATUS_AVAILABLE, f.SignalID, basePrice))
			}
		}
		if len(ps) > 0 {
			x.w.Tx(ctx, 0, feedstypes.NewMsgSubmitSignalPrices(val.String(), T, ps)) // a rejection only delays the background submission
		}
		defer func() {
			if len(out.viols) > 0 {
				engine.Fatal3("C20a: background chain of %s violates at tick %d: %v", c.Name, tick, out.viols)
			}
		}()
	}
	var rest []flight
	due := append([]flight(nil), fl...)
	sort.SliceStable(due, func(i, j int) bool { return due[i].Due < due[j].Due })
	for _, f := range due {
		if f.Due > tick {
			rest = append(rest, f)
			continue
		}
		res := x.w.Tx(ctx, 0, feedstypes.NewMsgSubmitSignalPrices(val.String(), f.MsgTs, f.Prices))
		if res.OK() {
			out.saw("deliver:accepted")
			out.saw(fmt.Sprintf("deliver:header-minus-handoff=%+d", T-f.MsgTs))
			continue
		}
		cur := map[string]bool{}
		for _, cf := range fk.GetCurrentFeeds(ctx).Feeds {
			cur[cf.SignalID] = true
		}
		gone := ""
		for _, p := range f.Prices {
			if !cur[p.SignalID] {
				gone = p.SignalID
			}
		}
		if gone != "" {
			// the feed list changed between the decision and the delivery: the daemon decided on a list
			// that was current (checked at the poll); not a fault of its timing rule
			out.saw("deliver:rejected-feed-left-the-list-in-flight")
			out.saw("deliver:rejected-feed-left-the-list-in-flight:" + res.ErrName())
			continue
		}
		out.violate("submission-rejected:"+res.ErrName(), "submission %s handed off at daemon time %d delivered in block %d (header time %d): %v", f.key(), f.MsgTs, ctx.BlockHeight(), T, res.Err)
	}
	if c.Revote != nil && tick >= c.RevoteTick && tick < c.RevoteTick+c.Period {
		must(x.w.Tx(ctx, 0, voteMsg(c.Revote)), "revote")
		out.saw("block:vote-changed")
	}
	// re-submission deadline (statement: before the signal's interval since its last accepted submission
	// runs out; README: nothing is due during the grace period after a feed-list update)
	cf := fk.GetCurrentFeeds(ctx)
	params := fk.GetParams(ctx)
	if l, err := fk.GetValidatorPriceList(ctx, val); err == nil {
		by := map[string]feedstypes.ValidatorPrice{}
		for _, p := range l.ValidatorPrices {
			if p.SignalPriceStatus != feedstypes.SIGNAL_PRICE_STATUS_UNSPECIFIED {
				by[p.SignalID] = p
			}
		}
		for _, f := range cf.Feeds {
			p, ok := by[f.SignalID]
			if !ok {
				continue
			}
			if T > p.Timestamp+f.Interval && T > cf.LastUpdateTimestamp+params.GracePeriod {
				out.violate("resubmission-late", "signal %s: last accepted submission at %d, interval %d, block time %d (feed list last updated %d, grace %d)", f.SignalID, p.Timestamp, f.Interval, T, cf.LastUpdateTimestamp, params.GracePeriod)
			} else if T == p.Timestamp+f.Interval {
				out.saw("block:price-exactly-one-interval-old")
			}
		}
	}
	updateBlock := ctx.BlockHeight()%params.CurrentFeedsUpdateInterval == 0
	next, br := x.w.Block(ctx, 1, time.Duration(c.Period)*time.Second)
	if br.Halt != "" {
		out.violate("block-halt", "%s", br.Halt)
		return ctx, rest
	}
	if updateBlock {
		out.saw("block:feed-list-update")
		if fmt.Sprint(feedIDs(cf)) != fmt.Sprint(feedIDs(fk.GetCurrentFeeds(next))) {
			out.saw("block:feed-list-changed")
		}
	}
	if st := x.w.App.OracleKeeper.GetValidatorStatus(next, val); !st.IsActive {
		out.violate("validator-deactivated-for-miss", "validator %s deactivated by the end-blocker of block %d (time %d); its prices: %v; feeds: %v", val, ctx.BlockHeight(), T, priceList(fk, ctx, val), cf.Feeds)
	}
	return next, rest
}

func feedIDs(cf feedstypes.CurrentFeeds) []string {
	var out []string
	for _, f := range cf.Feeds {
		out = append(out, fmt.Sprintf("%s/%d", f.SignalID, f.Interval))
	}
	return out
}

func priceList(fk feedskeeper.Keeper, ctx sdk.Context, val sdk.ValAddress) string {
	l, err := fk.GetValidatorPriceList(ctx, val)
	if err != nil {
		return "none"
	}
	var s []string
	for _, p := range l.ValidatorPrices {
		s = append(s, fmt.Sprintf("%s:%v:%d@%d/h%d", p.SignalID, p.SignalPriceStatus, p.Price, p.Timestamp, p.BlockHeight))
	}
	return strings.Join(s, " ")
}

// ---- search ----------------------------------------------------------------------------------------

type resultA struct {
	States      int
	PollRuns    int64
	BlockRuns   int64
	Dedup       int64
	MaxLevel    int
	PerLevelMax int
	Outcomes    map[string]int
	Violations  []engine.FoundViolation
	Exhaustive  bool
	SelfChecks  int64
	Witness     [][]string
	FinalKeys   []string
}

type cfgRun struct {
	c        *CfgA
	frontier []*stateA
	res      *resultA
	done     bool
}

type item struct {
	ci int
	s  *stateA
}

// searchA explores all configurations in lock-step (they share the daemon clock).
func searchA(cfgs []*CfgA, deadline time.Time, nworkers int) []*resultA {
	installClock()
	if nworkers <= 0 {
		nworkers = engine.DefaultWorkers()
	}
	workers := make([]*workerA, nworkers)
	bgs := make([][]sdk.Context, nworkers) // [worker][cfg]
	var wg sync.WaitGroup
	var buildMu sync.Mutex
	for i := range workers {
		wg.Add(1)
		go func(i int) {
			defer wg.Done()
			buildMu.Lock() // application construction is not re-entrant (global codec registration)
			workers[i] = newWorkerA()
			buildMu.Unlock()
			bgs[i] = make([]sdk.Context, len(cfgs))
			for ci, c := range cfgs {
				bgs[i][ci] = c.build(workers[i].w)
			}
		}(i)
	}
	wg.Wait()
	defer func() {
		for _, x := range workers {
			x.w.Close()
		}
	}()
	runs := make([]*cfgRun, len(cfgs))
	maxH := 0
	for ci, c := range cfgs {
		d0 := workers[0].dumpTracked(bgs[0][ci])
		s0 := &stateA{chainHash: hashDump(d0)}
		for i := 1; i < nworkers; i++ {
			if h := hashDump(workers[i].dumpTracked(bgs[i][ci])); h != s0.chainHash {
				engine.Fatal3("HARNESS-NONDETERMINISM: C20a base state of %s differs between workers (%s vs %s)", c.Name, h, s0.chainHash)
			}
		}
		runs[ci] = &cfgRun{c: c, frontier: []*stateA{s0}, res: &resultA{States: 1, Outcomes: map[string]int{}, Exhaustive: true}}
		if c.Horizon > maxH {
			maxH = c.Horizon
		}
	}
	var mu sync.Mutex
	capped := false

	// one sub-phase: kind[ci] = 0 none, 1 poll, 2 block
	subPhase := func(tick int, kind []int) {
		var items []item
		for ci, r := range runs {
			if kind[ci] == 0 || r.done {
				continue
			}
			for _, s := range r.frontier {
				items = append(items, item{ci, s})
			}
		}
		if len(items) == 0 {
			return
		}
		next := make([]map[string]*stateA, len(runs))
		for ci := range runs {
			if kind[ci] != 0 && !runs[ci].done {
				next[ci] = map[string]*stateA{}
			}
		}
		var idx int64
		var wg sync.WaitGroup
		for wi := 0; wi < nworkers; wi++ {
			wg.Add(1)
			go func(wi int) {
				defer wg.Done()
				x := workers[wi]
				bgNext := map[int]dump{}
				bgNextOther := map[int]string{}
				localOut := map[int]map[string]int{}
				var localPoll, localBlock, localSelf int64
				for {
					i := atomic.AddInt64(&idx, 1) - 1
					if i >= int64(len(items)) {
						break
					}
					if i%64 == 0 && !deadline.IsZero() && time.Now().After(deadline) {
						mu.Lock()
						capped = true
						mu.Unlock()
					}
					mu.Lock()
					stop := capped
					mu.Unlock()
					if stop {
						break
					}
					it := items[i]
					c := runs[it.ci].c
					lo := localOut[it.ci]
					if lo == nil {
						lo = map[string]int{}
						localOut[it.ci] = lo
					}
					var children []*stateA
					var found []engine.FoundViolation
					if kind[it.ci] == 1 {
						ctx := x.restore(bgs[wi][it.ci], it.s.ov)
						pend := it.s.pending()
						now := wall0 + int64(tick)
						var pi0 pollInfo
						choice := []int{}
						first := true
						for {
							allowed := true
							if !first {
								for k, id := range pi0.req {
									if pi0.menus[k][choice[k]] == "MISS" && it.s.miss[id] >= c.MaxMiss {
										allowed = false
									}
								}
							}
							if allowed {
								var out stepOut
								sub, pi := x.pollOnce(ctx, c, it.s.dm, pend, choice, now, &out)
								dk := daemonMemoryKey(pi.daemon)
								localPoll++
								if first {
									pi0 = pi
									choice = make([]int, len(pi.sizes))
									first = false
								}
								for _, l := range out.labels {
									lo[l]++
								}
								ev := fmt.Sprintf("t%d:poll[%s]", tick, pi.chosen)
								nm := nextMiss(it.s.miss, pi.req, pi.given)
								if len(out.viols) > 0 {
									for _, v := range out.viols {
										found = append(found, engine.FoundViolation{Violation: engine.Violation{Fingerprint: v.fp, Detail: v.detail}, Path: (&pnode{it.s.p, ev}).path(), Config: c})
									}
								} else if sub == nil {
									lo["poll:no-submission"]++
									children = append(children, &stateA{ov: it.s.ov, chainHash: it.s.chainHash, fl: it.s.fl, miss: nm, dm: pi.daemon, dmKey: dk, p: &pnode{it.s.p, ev}})
								} else {
									lo["poll:submission"]++
									lo[fmt.Sprintf("poll:submission-of-%d-signals", len(sub.SignalPrices))]++
									for _, d := range c.Lat {
										nf := append(append([]flight(nil), it.s.fl...), flight{Prices: sub.SignalPrices, MsgTs: now, Due: tick + d})
										sort.Slice(nf, func(i, j int) bool { return nf[i].key() < nf[j].key() })
										if len(nf) > 1 {
											lo["poll:second-submission-while-one-in-flight"]++
										}
										children = append(children, &stateA{ov: it.s.ov, chainHash: it.s.chainHash, fl: nf, miss: nm, dm: pi.daemon, dmKey: dk, p: &pnode{it.s.p, fmt.Sprintf("%s:lat%d", ev, d)}})
									}
								}
							}
							// next choice vector
							k := 0
							for k < len(choice) {
								choice[k]++
								if choice[k] < pi0.sizes[k] {
									break
								}
								choice[k] = 0
								k++
							}
							if k == len(choice) {
								break
							}
						}
					} else {
						bn, ok := bgNext[it.ci]
						if !ok {
							nctx, _ := x.blockStep(engine.Fork(bgs[wi][it.ci]), c, tick, nil, nil)
							bn = x.dumpTracked(nctx)
							bgNext[it.ci] = bn
							bgNextOther[it.ci] = x.otherStoresHash(nctx)
						}
						ctx := x.restore(bgs[wi][it.ci], it.s.ov)
						var out stepOut
						nctx, rest := x.blockStep(ctx, c, tick, it.s.fl, &out)
						localBlock++
						for _, l := range out.labels {
							lo[l]++
						}
						ev := fmt.Sprintf("t%d:block", tick)
						if len(out.viols) > 0 {
							for _, v := range out.viols {
								found = append(found, engine.FoundViolation{Violation: engine.Violation{Fingerprint: v.fp, Detail: v.detail}, Path: (&pnode{it.s.p, ev}).path(), Config: c})
							}
						} else {
							d := x.dumpTracked(nctx)
							ch := &stateA{ov: diffDump(d, bn), chainHash: hashDump(d), fl: rest, miss: it.s.miss, dm: it.s.dm, dmKey: it.s.dmKey, p: &pnode{it.s.p, ev}}
							if ch.chainHash[0] == '0' && ch.chainHash[1] < '4' { // deterministic 1/64 subset: harness self-check
								localSelf++
								if x.otherStoresHash(nctx) != bgNextOther[it.ci] {
									engine.Fatal3("C20a: a store outside %v differs from the background chain (config %s, tick %d, path %v)", trackedStores, c.Name, tick, ch.p.path())
								}
								if h := hashDump(x.dumpTracked(x.restore(nctxOf(x, bgs[wi][it.ci], c, tick), ch.ov))); h != ch.chainHash {
									engine.Fatal3("C20a: overlay does not restore the state (config %s, tick %d)", c.Name, tick)
								}
							}
							children = append(children, ch)
						}
					}
					mu.Lock()
					r := runs[it.ci].res
					r.Violations = append(r.Violations, found...)
					if len(r.Violations) >= 64 {
						capped = true
					}
					for _, ch := range children {
						k := ch.key()
						if _, dup := next[it.ci][k]; dup {
							r.Dedup++
							continue
						}
						next[it.ci][k] = ch
					}
					mu.Unlock()
				}
				mu.Lock()
				for ci, lo := range localOut {
					for k, v := range lo {
						runs[ci].res.Outcomes[k] += v
					}
				}
				// totals of all configurations are kept on the first result
				runs[0].res.SelfChecks += localSelf
				runs[0].res.PollRuns += localPoll
				runs[0].res.BlockRuns += localBlock
				mu.Unlock()
			}(wi)
		}
		wg.Wait()
		for ci, r := range runs {
			if next[ci] == nil {
				continue
			}
			keys := make([]string, 0, len(next[ci]))
			for k := range next[ci] {
				keys = append(keys, k)
			}
			sort.Strings(keys)
			r.frontier = r.frontier[:0]
			for _, k := range keys {
				r.frontier = append(r.frontier, next[ci][k])
			}
			r.res.States += len(keys)
			if len(keys) > r.res.PerLevelMax {
				r.res.PerLevelMax = len(keys)
			}
		}
		// advance the background chains of the configurations that executed a block
		var wg2 sync.WaitGroup
		for wi := 0; wi < nworkers; wi++ {
			wg2.Add(1)
			go func(wi int) {
				defer wg2.Done()
				for ci, r := range runs {
					if kind[ci] == 2 && !r.done {
						bgs[wi][ci], _ = workers[wi].blockStep(bgs[wi][ci], r.c, tick, nil, nil)
					}
				}
			}(wi)
		}
		wg2.Wait()
	}

	for tick := 0; tick < maxH; tick++ {
		atomic.StoreInt64(&clockA, wall0+int64(tick))
		kx := make([]int, len(runs))
		ky := make([]int, len(runs))
		for ci, r := range runs {
			if r.done {
				continue
			}
			if tick >= r.c.Horizon || len(r.frontier) == 0 {
				r.done = true
				continue
			}
			blk := 0
			if r.c.isBlockTick(tick) {
				blk = 2
			}
			if r.c.PollFirst {
				kx[ci], ky[ci] = 1, blk
			} else {
				kx[ci], ky[ci] = blk, 1
			}
			r.res.MaxLevel = tick + 1
		}
		subPhase(tick, kx)
		if !capped {
			subPhase(tick, ky)
		}
		if capped {
			break
		}
	}
	out := make([]*resultA, len(runs))
	for ci, r := range runs {
		if capped && r.res.MaxLevel < r.c.Horizon {
			r.res.Exhaustive = false
		}
		// witnesses: the first and the last state (by key) of the final frontier
		if n := len(r.frontier); n > 0 && !capped {
			r.res.Witness = append(r.res.Witness, r.frontier[0].p.path())
			r.res.FinalKeys = append(r.res.FinalKeys, r.frontier[0].key())
			if n > 1 {
				r.res.Witness = append(r.res.Witness, r.frontier[n-1].p.path())
				r.res.FinalKeys = append(r.res.FinalKeys, r.frontier[n-1].key())
			}
		}
		out[ci] = r.res
	}
	return out
}

// nctxOf returns the background chain of c advanced by the block of this tick (on a fork).
func nctxOf(x *workerA, bg sdk.Context, c *CfgA, tick int) sdk.Context {
	n, _ := x.blockStep(engine.Fork(bg), c, tick, nil, nil)
	return n
}

// ---- linear replay (no overlays) -------------------------------------------------------------------

// parseEv: "t12:poll[A=Ahi,B=UNAV]:lat2" | "t12:poll[...]" | "t12:block"
func parseEv(ev string) (tick int, kind string, choice map[string]string, lat int) {
	parts := strings.SplitN(ev, ":", 2)
	tick, _ = strconv.Atoi(strings.TrimPrefix(parts[0], "t"))
	rest := parts[1]
	if rest == "block" {
		return tick, "block", nil, 0
	}
	choice = map[string]string{}
	lat = -1
	open, cl := strings.Index(rest, "["), strings.LastIndex(rest, "]")
	for _, kv := range strings.Split(rest[open+1:cl], ",") {
		if kv == "" {
			continue
		}
		p := strings.SplitN(kv, "=", 2)
		choice[p[0]] = p[1]
	}
	if i := strings.Index(rest[cl:], ":lat"); i >= 0 {
		lat, _ = strconv.Atoi(rest[cl+i+4:])
	}
	return tick, "poll", choice, lat
}

// replayA re-executes path on a fresh application with one linear context (every step written in
// place).  It returns the violations of the last step, the outcome labels of each step and the final
// state key.
func replayA(c *CfgA, path []string) (last []viol, outs []string, finalKey string) {
	installClock()
	x := newWorkerA()
	defer x.w.Close()
	ctx := c.build(x.w)
	var fl []flight
	var miss map[string]int
	var dm *signaller.Signaller
	for _, ev := range path {
		tick, kind, choice, lat := parseEv(ev)
		atomic.StoreInt64(&clockA, wall0+int64(tick))
		var out stepOut
		if kind == "block" {
			ctx, fl = x.blockStep(ctx, c, tick, fl, &out)
		} else {
			pend := (&stateA{fl: fl}).pending()
			// translate the named choice into a vector over the sorted requested ids: probe first
			var probe stepOut
			_, pi0 := x.pollOnce(ctx, c, dm, pend, nil, wall0+int64(tick), &probe)
			ids := pi0.req
			vec := make([]int, len(ids))
			for i, id := range ids {
				menu := c.Menu
				if c.Menu2 != nil && id != firstSignal(c) {
					menu = c.Menu2
				}
				for k, n := range menu {
					if n == choice[id] {
						vec[i] = k
					}
				}
			}
			sub, pi := x.pollOnce(ctx, c, dm, pend, vec, wall0+int64(tick), &out)
			dm = pi.daemon
			miss = nextMiss(miss, pi.req, pi.given)
			if sub != nil && len(out.viols) == 0 {
				if lat < 0 {
					lat = c.Lat[0]
				}
				fl = append(fl, flight{Prices: sub.SignalPrices, MsgTs: wall0 + int64(tick), Due: tick + lat})
				sort.Slice(fl, func(i, j int) bool { return fl[i].key() < fl[j].key() })
			}
		}
		last = out.viols
		outs = append(outs, strings.Join(out.labels, " "))
	}
	finalKey = (&stateA{chainHash: hashDump(x.dumpTracked(ctx)), fl: fl, miss: miss, dmKey: daemonMemoryKey(dm)}).key()
	return
}
