package c20

// Part (b) of C20: the in-flight bookkeeping shared by the Signaller and the Submitter.  Engine:
// gosched — the real, instrumented Signaller.execute/submitPrices and Submitter.Start / submitPrice /
// broadcastMsg / buildSignedTx / getTxResponse run under the controlled scheduler with a real
// in-memory keyring (2 keys), real tx building and signing, and fake RPC clients / queriers / price
// service whose answers are environment choice points.

import (
	"context"
	"fmt"
	"runtime"
	"sort"
	"strconv"
	"strings"
	"sync"
	"time"

	abci "github.com/cometbft/cometbft/abci/types"
	cmtbytes "github.com/cometbft/cometbft/libs/bytes"
	rpcclient "github.com/cometbft/cometbft/rpc/client"
	ctypes "github.com/cometbft/cometbft/rpc/core/types"
	cmttypes "github.com/cometbft/cometbft/types"

	"github.com/cosmos/cosmos-sdk/client"
	"github.com/cosmos/cosmos-sdk/client/flags"
	codectypes "github.com/cosmos/cosmos-sdk/codec/types"
	"github.com/cosmos/cosmos-sdk/crypto/hd"
	"github.com/cosmos/cosmos-sdk/crypto/keyring"
	sdk "github.com/cosmos/cosmos-sdk/types"
	txtypes "github.com/cosmos/cosmos-sdk/types/tx"
	authtypes "github.com/cosmos/cosmos-sdk/x/auth/types"
	"github.com/cosmos/cosmos-sdk/x/authz"

	bothan "github.com/bandprotocol/bothan/bothan-api/client/go-client/proto/bothan/v1"

	"github.com/bandprotocol/chain/v3/grogu/signaller"
	"github.com/bandprotocol/chain/v3/grogu/submitter"
	"github.com/bandprotocol/chain/v3/pkg/logger"
	bandtesting "github.com/bandprotocol/chain/v3/testing"
	feedstypes "github.com/bandprotocol/chain/v3/x/feeds/types"
	"github.com/bandprotocol/chain/v3/zzverif/engine"
	"github.com/bandprotocol/chain/v3/zzverif/gosched"
	"github.com/bandprotocol/chain/v3/zzverif/vsched"
	"github.com/bandprotocol/chain/v3/zzverif/vsync"
)

// ---- shared, read-only environment ----------------------------------------------------------------

type envB struct {
	cctx  client.Context
	kb    keyring.Keyring
	val   sdk.ValAddress
	keys  []string
	addrs map[string]string // bech32 address -> key name
	lg    *logger.Logger
}

var (
	envOnce sync.Once
	theEnv  *envB
)

const (
	mnemonic1 = "abandon abandon abandon abandon abandon abandon abandon abandon abandon abandon abandon about"
	mnemonic2 = "legal winner thank year wave sausage worth useful legal winner thank yellow"
)

func getEnvB() *envB {
	envOnce.Do(func() {
		w := engine.NewWorld()
		cdc := w.App.AppCodec()
		kb := keyring.NewInMemory(cdc)
		e := &envB{kb: kb, val: bandtesting.Validators[0].ValAddress, addrs: map[string]string{}, lg: logger.VerifNop()}
		for i, m := range []string{mnemonic1, mnemonic2} {
			name := fmt.Sprintf("k%d", i+1)
			rec, err := kb.NewAccount(name, m, "", hd.CreateHDPath(494, 0, 0).String(), hd.Secp256k1)
			if err != nil {
				panic(err)
			}
			a, err := rec.GetAddress()
			if err != nil {
				panic(err)
			}
			e.keys = append(e.keys, name)
			e.addrs[a.String()] = name
		}
		e.cctx = client.Context{
			ChainID:           engine.ChainID,
			Codec:             cdc,
			InterfaceRegistry: w.App.InterfaceRegistry(),
			Keyring:           kb,
			TxConfig:          w.App.GetTxConfig(),
			BroadcastMode:     flags.BroadcastSync,
		}
		theEnv = e
	})
	return theEnv
}

// ---- scenario ---------------------------------------------------------------------------------------

// ScB is one closed harness of part (b).
type ScB struct {
	Name    string
	Clients int
	// Polls: the signal that is the daemon's (single) current feed at each poll, or both signals
	// ("S1+S2") — only allowed when it is the only poll (Go's map iteration order is not controlled
	// in this binary; with one poll the order cannot influence the control flow).
	Polls []string
	Sleep bool // the signaller sleeps its polling interval (1 s) between polls; otherwise polls are back to back
	// Gaps, when set, is the virtual time slept after each poll instead (the signaller's polls in between are
	// left out: with the single current feed in flight they request nothing)
	Gaps    []time.Duration
	MaxTry  uint64
	Timeout time.Duration // broadcast timeout (tx lookups are polled every second)
}

type subInfo struct {
	uuid     string
	signals  []string
	decided  int           // sequence number of the decision (answer of the price service)
	at       time.Duration // virtual time of the decision
	firstAct int
	lastAct  int
	ok       bool
	tries    int
}

type runB struct {
	e       *envB
	sc      ScB
	seq     int
	poll    int
	subs    map[string]*subInfo
	order   []string
	hashes  map[string]string // tx hash -> uuid
	txState map[string]int    // tx hash -> sticky answer of the tx lookup (1-based)
	txPolls map[string]int
	tags    map[string]bool
	starts  int // submitPrice invocations (key lookups from submitPrice)
	viol    []engine.Violation
	skipped bool // a poll did not request an in-flight signal

	finalKeys    []string
	finalPending []string
	leftover     int
	inspected    bool
}

func (r *runB) tag(t string) { r.tags[t] = true }
func (r *runB) violate(fp, f string, a ...any) {
	r.viol = append(r.viol, engine.Violation{Fingerprint: fp, Detail: fmt.Sprintf(f, a...)})
}
func (r *runB) act(uuid string) {
	r.seq++
	if s := r.subs[uuid]; s != nil {
		if s.firstAct == 0 {
			s.firstAct = r.seq
		}
		s.lastAct = r.seq
	}
}

// decode returns the uuid and the signal ids carried by a transaction built by the submitter.
func (r *runB) decode(txBytes []byte) (uuid string, sigs []string, err error) {
	tx, err := r.e.cctx.TxConfig.TxDecoder()(txBytes)
	if err != nil {
		return "", nil, err
	}
	if m, ok := tx.(sdk.TxWithMemo); ok {
		memo := m.GetMemo()
		if i := strings.Index(memo, "uuid: "); i >= 0 {
			uuid = memo[i+6:]
		}
	}
	for _, msg := range tx.GetMsgs() {
		ex, ok := msg.(*authz.MsgExec)
		if !ok {
			return uuid, nil, fmt.Errorf("unexpected message %T", msg)
		}
		inner, err := ex.GetMessages()
		if err != nil {
			return uuid, nil, err
		}
		for _, im := range inner {
			sp, ok := im.(*feedstypes.MsgSubmitSignalPrices)
			if !ok {
				return uuid, nil, fmt.Errorf("unexpected inner message %T", im)
			}
			if sp.Validator != r.e.val.String() {
				return uuid, nil, fmt.Errorf("validator %s", sp.Validator)
			}
			for _, p := range sp.SignalPrices {
				sigs = append(sigs, p.SignalID)
			}
		}
	}
	sort.Strings(sigs)
	return uuid, sigs, nil
}

func (r *runB) checkContent(where string, txBytes []byte) string {
	uuid, sigs, err := r.decode(txBytes)
	if err != nil {
		r.violate("transaction-malformed", "%s: %v", where, err)
		return uuid
	}
	s := r.subs[uuid]
	if s == nil {
		r.violate("transaction-for-unknown-submission", "%s: uuid %q", where, uuid)
		return uuid
	}
	if fmt.Sprint(sigs) != fmt.Sprint(s.signals) {
		r.violate("transaction-content-differs-from-decision", "%s: submission %s decided %v, transaction carries %v", where, uuid, s.signals, sigs)
	}
	return uuid
}

// ---- fakes --------------------------------------------------------------------------------------------

type fakeRemote struct {
	rpcclient.RemoteClient
	r  *runB
	id int
}

func (f fakeRemote) Remote() string { return fmt.Sprintf("fake-%d", f.id) }

func (f fakeRemote) ABCIQueryWithOptions(_ context.Context, path string, data cmtbytes.HexBytes, _ rpcclient.ABCIQueryOptions) (*ctypes.ResultABCIQuery, error) {
	if !strings.HasSuffix(path, "Service/Simulate") {
		return nil, fmt.Errorf("c20 fake: unexpected query %s", path)
	}
	var req txtypes.SimulateRequest
	if err := req.Unmarshal(data); err != nil {
		return nil, err
	}
	uuid := f.r.checkContent("simulate", req.TxBytes)
	f.r.act(uuid)
	if vsched.Env("simulate", 2) == 1 {
		f.r.tag("sim-error")
		return nil, fmt.Errorf("injected simulation failure")
	}
	resp := txtypes.SimulateResponse{GasInfo: &sdk.GasInfo{GasWanted: 200000, GasUsed: 100000}}
	bz, err := resp.Marshal()
	if err != nil {
		return nil, err
	}
	return &ctypes.ResultABCIQuery{Response: abci.ResponseQuery{Code: 0, Height: 1, Value: bz}}, nil
}

func (f fakeRemote) BroadcastTxSync(_ context.Context, tx cmttypes.Tx) (*ctypes.ResultBroadcastTx, error) {
	uuid := f.r.checkContent("broadcast", tx)
	f.r.act(uuid)
	if s := f.r.subs[uuid]; s != nil {
		s.tries++
	}
	hash := cmtbytes.HexBytes(tx.Hash())
	f.r.hashes[hash.String()] = uuid
	switch vsched.Env("broadcast", 4) {
	case 1:
		f.r.tag("broadcast-error")
		return nil, fmt.Errorf("injected broadcast failure")
	case 2:
		f.r.tag("broadcast-code")
		return &ctypes.ResultBroadcastTx{Code: 5, Codespace: "sdk", Log: "insufficient funds", Hash: hash}, nil
	case 3:
		f.r.tag("broadcast-out-of-gas")
		return &ctypes.ResultBroadcastTx{Code: 11, Codespace: "sdk", Log: "out of gas", Hash: hash}, nil
	}
	return &ctypes.ResultBroadcastTx{Code: 0, Hash: hash}, nil
}

type fakeTxQuerier struct{ r *runB }

func (q fakeTxQuerier) QueryTx(hash string) (*sdk.TxResponse, error) {
	r := q.r
	uuid := r.hashes[hash]
	r.act(uuid)
	st := r.txState[hash]
	if st == 0 {
		st = 1 + vsched.Env("tx-lookup", 5)
		r.txState[hash] = st
	}
	r.txPolls[hash]++
	switch st {
	case 1:
		if s := r.subs[uuid]; s != nil {
			s.ok = true
		}
		return &sdk.TxResponse{TxHash: hash, Code: 0}, nil
	case 2:
		r.tag("tx-failed-code")
		return &sdk.TxResponse{TxHash: hash, Code: 9, Codespace: "feeds", RawLog: "price submit too early"}, nil
	case 3:
		r.tag("tx-out-of-gas")
		return &sdk.TxResponse{TxHash: hash, Code: 11, Codespace: "sdk", RawLog: "out of gas"}, nil
	case 4:
		if r.txPolls[hash] == 1 {
			r.tag("tx-found-late")
			return nil, fmt.Errorf("tx not found")
		}
		if s := r.subs[uuid]; s != nil {
			s.ok = true
		}
		return &sdk.TxResponse{TxHash: hash, Code: 0}, nil
	}
	r.tag("tx-never-found")
	return nil, fmt.Errorf("tx not found")
}

type fakeAuthQuerier struct{ r *runB }

func (q fakeAuthQuerier) QueryAccount(addr sdk.Address) (*authtypes.QueryAccountResponse, error) {
	q.r.seq++
	if vsched.Env("account", 2) == 1 {
		q.r.tag("account-error")
		return nil, fmt.Errorf("injected account query failure")
	}
	acc := authtypes.NewBaseAccountWithAddress(sdk.MustAccAddressFromBech32(addr.String()))
	acc.AccountNumber, acc.Sequence = 7, 3
	a, err := codectypes.NewAnyWithValue(acc)
	if err != nil {
		return nil, err
	}
	return &authtypes.QueryAccountResponse{Account: a}, nil
}

// faultKeyring is the real keyring; only the lookup made by submitPrice itself can fail.
type faultKeyring struct {
	keyring.Keyring
	r *runB
}

func (k faultKeyring) Key(uid string) (*keyring.Record, error) {
	if pc, _, _, ok := runtime.Caller(1); ok {
		if fn := runtime.FuncForPC(pc); fn != nil && strings.HasSuffix(fn.Name(), ".submitPrice") {
			k.r.seq++
			k.r.starts++
			if vsched.Env("key", 2) == 1 {
				k.r.tag("key-error")
				return nil, fmt.Errorf("injected keyring failure")
			}
		}
	}
	return k.Keyring.Key(uid)
}

type fakeBothanB struct{ r *runB }

func (b fakeBothanB) GetPrices(ids []string) (*bothan.GetPricesResponse, error) {
	r := b.r
	r.seq++
	uuid := fmt.Sprintf("u%d", r.poll)
	resp := &bothan.GetPricesResponse{Uuid: uuid}
	sorted := append([]string(nil), ids...)
	sort.Strings(sorted)
	for _, id := range sorted {
		resp.Prices = append(resp.Prices, &bothan.Price{SignalId: id, Price: 1000 + uint64(r.poll), Status: bothan.Status_STATUS_AVAILABLE})
	}
	if len(sorted) > 0 {
		r.subs[uuid] = &subInfo{uuid: uuid, signals: sorted, decided: r.seq, at: vsched.VirtualNow()}
		r.order = append(r.order, uuid)
	}
	return resp, nil
}

func (b fakeBothanB) GetInfo() (*bothan.GetInfoResponse, error) {
	b.r.seq++
	switch vsched.Env("bothan-info", 3) {
	case 1:
		b.r.tag("monitoring-disabled")
		return &bothan.GetInfoResponse{MonitoringEnabled: false}, nil
	case 2:
		b.r.tag("bothan-info-error")
		return nil, fmt.Errorf("injected bothan failure")
	}
	return &bothan.GetInfoResponse{MonitoringEnabled: true}, nil
}
func (b fakeBothanB) UpdateRegistry(string, string) error { return nil }
func (b fakeBothanB) PushMonitoringRecords(uuid, txHash string) error {
	b.r.act(uuid)
	if vsched.Env("bothan-push", 2) == 1 {
		b.r.tag("bothan-push-error")
		return fmt.Errorf("injected bothan failure")
	}
	return nil
}

func contains(l []string, s string) bool {
	for _, x := range l {
		if x == s {
			return true
		}
	}
	return false
}

type noFeedQuerier struct{}

func (noFeedQuerier) QueryValidValidator(sdk.ValAddress) (*feedstypes.QueryValidValidatorResponse, error) {
	return nil, fmt.Errorf("unused")
}
func (noFeedQuerier) QueryValidatorPrices(sdk.ValAddress) (*feedstypes.QueryValidatorPricesResponse, error) {
	return nil, fmt.Errorf("unused")
}
func (noFeedQuerier) QueryParams() (*feedstypes.QueryParamsResponse, error) {
	return nil, fmt.Errorf("unused")
}
func (noFeedQuerier) QueryCurrentFeeds() (*feedstypes.QueryCurrentFeedsResponse, error) {
	return nil, fmt.Errorf("unused")
}

// ---- scenario body and oracle ---------------------------------------------------------------------------

func feedsOf(poll string) []feedstypes.FeedWithDeviation {
	var out []feedstypes.FeedWithDeviation
	if strings.HasPrefix(poll, "N:") { // a batch of n current feeds S001..Sn (only as the single poll of a scenario)
		n, _ := strconv.Atoi(poll[2:])
		for i := 1; i <= n; i++ {
			out = append(out, feedstypes.NewFeedWithDeviation(fmt.Sprintf("S%03d", i), 2, 60, 50))
		}
		return out
	}
	for _, id := range strings.Split(poll, "+") {
		out = append(out, feedstypes.NewFeedWithDeviation(id, 2, 60, 50))
	}
	return out
}

func scenarioB(sc ScB) gosched.Scenario {
	return gosched.Scenario{Name: sc.Name, New: func(worker int) (func(), func(*vsched.Sched) (string, []engine.Violation)) {
		e := getEnvB()
		r := &runB{e: e, sc: sc, subs: map[string]*subInfo{}, hashes: map[string]string{}, txState: map[string]int{}, txPolls: map[string]int{}, tags: map[string]bool{}}
		body := func() {
			pending := &vsync.Map{}
			submitCh := make(chan submitter.SignalPriceSubmission, 300) // as shipped
			var clients []rpcclient.RemoteClient
			for i := 0; i < sc.Clients; i++ {
				clients = append(clients, fakeRemote{r: r, id: i})
			}
			cctx := e.cctx.WithKeyring(faultKeyring{e.kb, r})
			bo := fakeBothanB{r}
			sub, err := submitter.New(cctx, clients, bo, e.lg, submitCh, fakeAuthQuerier{r}, fakeTxQuerier{r}, e.val, pending,
				sc.Timeout, sc.MaxTry, time.Second, "0uband")
			if err != nil {
				panic(err)
			}
			sg := signaller.New(noFeedQuerier{}, bo, time.Second, submitCh, e.lg, e.val, pending, shippedStartPct, shippedOffsetPct)
			vsched.Go(func() { // `go submitterService.Start()` in cmd/grogu/cmd/run.go
				vsched.SetDaemon()
				sub.Start()
			})
			for i, p := range sc.Polls {
				r.poll = i
				sg.VerifSetView(feedstypes.DefaultParams(), feedsOf(p), nil)
				before := len(r.order)
				sg.VerifExecute()
				if len(r.order) == before {
					r.skipped = true
					if n := len(r.order); n > 0 && vsched.VirtualNow()-r.subs[r.order[n-1]].at > 90*time.Second {
						r.tag("poll-skipped-signal-in-flight-for-over-90s")
					}
				}
				if sc.Gaps != nil {
					if i < len(sc.Gaps) {
						vsched.Sleep(sc.Gaps[i])
					}
				} else if sc.Sleep {
					vsched.Sleep(time.Second)
				}
			}
			// quiescence: every sleep of the daemon is bounded, so everything else has come to rest when this returns
			vsched.Sleep(time.Hour)
			idle := sub.VerifIdleKeys()
			for {
				c := vsched.NewRecv[string](idle)
				if vsched.Select(true, c) < 0 {
					break
				}
				r.finalKeys = append(r.finalKeys, c.Val())
			}
			pending.Range(func(k, _ any) bool {
				r.finalPending = append(r.finalPending, k.(string))
				return true
			})
			for {
				c := vsched.NewRecv[submitter.SignalPriceSubmission](submitCh)
				if vsched.Select(true, c) < 0 {
					break
				}
				r.leftover++
			}
			r.inspected = true
		}
		check := func(s *vsched.Sched) (string, []engine.Violation) {
			if len(s.Panics) > 0 || s.Deadlock || s.Livelock {
				return "aborted", r.viol
			}
			v := r.viol
			add := func(fp, f string, a ...any) {
				v = append(v, engine.Violation{Fingerprint: fp, Detail: fmt.Sprintf(f, a...)})
			}
			if !r.inspected {
				add("harness:final-inspection-not-reached", "main thread did not finish")
				return "aborted", v
			}
			sort.Strings(r.finalKeys)
			sort.Strings(r.finalPending)
			if fmt.Sprint(r.finalKeys) != fmt.Sprint(e.keys) {
				add("key-not-returned-to-idle-channel", "idle keys after quiescence: %v, want %v (faults: %v)", r.finalKeys, e.keys, tagList(r.tags))
			}
			if len(r.finalPending) != 0 {
				add("signal-still-pending-after-quiescence", "pending after quiescence: %v (faults: %v)", r.finalPending, tagList(r.tags))
			}
			if r.leftover != 0 || r.starts != len(r.order) {
				add("submission-never-processed", "%d submissions handed off, %d processed, %d left in the channel", len(r.order), r.starts, r.leftover)
			}
			// no signal in two submissions that overlap in time: a later submission containing the signal
			// was decided only after the last activity of the earlier one
			conc := false
			for i, ui := range r.order {
				a := r.subs[ui]
				for _, uj := range r.order[i+1:] {
					b := r.subs[uj]
					if a.lastAct > b.decided {
						conc = true
						for _, id := range a.signals {
							if contains(b.signals, id) {
								add("signal-in-two-overlapping-submissions", "signal %s: submission %s (decided at step %d) still active at step %d, submission %s decided at step %d", id, a.uuid, a.decided, a.lastAct, b.uuid, b.decided)
							}
						}
					}
				}
			}
			var toks []string
			nok := 0
			for _, u := range r.order {
				if r.subs[u].ok {
					nok++
				}
			}
			toks = append(toks, fmt.Sprintf("submissions=%d", len(r.order)), fmt.Sprintf("succeeded=%d", nok))
			if nok < len(r.order) {
				toks = append(toks, "some-submission-failed-for-good")
			}
			if nok == len(r.order) && len(r.order) > 0 {
				toks = append(toks, "all-succeeded")
			}
			if conc {
				toks = append(toks, "two-submissions-concurrently")
			}
			if r.skipped {
				toks = append(toks, "poll-skipped-in-flight-signal")
			}
			for _, u := range r.order {
				if r.subs[u].tries > sc.Clients {
					toks = append(toks, "retried")
					break
				}
			}
			toks = append(toks, tagList(r.tags)...)
			return strings.Join(toks, " "), v
		}
		return body, check
	}}
}

func tagList(m map[string]bool) []string {
	var l []string
	for k := range m {
		l = append(l, k)
	}
	sort.Strings(l)
	return l
}
