package c20

// Part (c) of C20: bounded-exhaustive sweep of the daemon's real deviation predicate (isDeviated,
// the clause of shouldUpdatePrice behind "promptly when the price moves by at least the feed's
// deviation") against an exact integer reference |new-old| * 10^4 >= d * old (big.Int).

import (
	"fmt"
	"math/big"
	"os"
	"sort"

	"github.com/bandprotocol/chain/v3/grogu/signaller"
	"github.com/bandprotocol/chain/v3/zzverif/engine"
)

// old prices.  sweepOld: d*old < 2^53 for every d <= 10000, so every operand and intermediate product of a
// float64 evaluation of |new-old|*10^4/old is an exact integer.  sweepOldLarge: quotes at the price service's
// scale (1e9 per unit) from a few thousand to a million units and up to the end of uint64, where
// |new-old|*10^4 (and, for the last ones, the price itself) is beyond float64's exact integer range.
var sweepOld = []uint64{
	1, 3, 7, 9_999, 10_000, 10_001, 123_457, 1_000_000, 123_450_000, 999_999_999, 1_000_000_000, 2_500_000_000, 64_123_456_789,
	123_456_780_000, 900_000_000_000,
}

var sweepOldLarge = []uint64{
	1_000_000_000_000, 2_500_000_000_000, 3_141_592_653_589, 48_050_850_121_950, 67_891_234_560_000, 96_081_443_587_980,
	99_999_999_990_000, 100_000_000_000_000, 123_456_789_012_345, 144_125_276_828_930, 1_000_000_000_000_000,
	9_007_199_254_740_992, 9_007_199_254_750_000, 123_456_789_012_340_000, 1_000_000_000_000_000_000, 1_844_674_407_370_000_000,
}

func refDeviated(d int64, old, nw uint64) bool {
	if old == 0 {
		return nw != 0
	}
	diff := new(big.Int).Sub(new(big.Int).SetUint64(nw), new(big.Int).SetUint64(old))
	diff.Abs(diff).Mul(diff, big.NewInt(10000))
	return diff.Cmp(new(big.Int).Mul(big.NewInt(d), new(big.Int).SetUint64(old))) >= 0
}

// assignable: deviations the chain assigns under its default parameters, max(3000/powerFactor, 50)
var assignable = func() map[int64]bool {
	m := map[int64]bool{}
	for pf := int64(1); pf <= 60; pf++ {
		d := 3000 / pf
		if d < 50 {
			d = 50
		}
		m[d] = true
	}
	return m
}()

func execC(r *engine.Run, quick bool) {
	maxU := new(big.Int).SetUint64(^uint64(0))
	var evals, exact, fneg, fpos, hugeNeg, hugePos int
	firstHuge := ""
	two53 := new(big.Int).Lsh(big.NewInt(1), 53)
	var bigNeg, bigNegAssignable int
	firstBig := ""
	var bigList [][3]uint64
	sweep := func(olds []uint64) {
		for d := int64(1); d <= 10000; d++ {
			for _, old := range olds {
				// smallest move that reaches d bp: ceil(d*old/10^4)
				num := new(big.Int).Mul(big.NewInt(d), new(big.Int).SetUint64(old))
				step, rem := new(big.Int).QuoRem(num, big.NewInt(10000), new(big.Int))
				isExact := rem.Sign() == 0
				if !isExact {
					step.Add(step, big.NewInt(1))
				}
				if step.Sign() == 0 {
					continue
				}
				var cands []uint64
				up := new(big.Int).Add(new(big.Int).SetUint64(old), step)
				if up.Cmp(maxU) < 0 {
					cands = append(cands, up.Uint64(), up.Uint64()-1, up.Uint64()+1)
				}
				if dn := new(big.Int).Sub(new(big.Int).SetUint64(old), step); dn.Sign() > 0 {
					cands = append(cands, dn.Uint64(), dn.Uint64()+1, dn.Uint64()-1)
				}
				for ci, nw := range cands {
					// beyond float64's exact range: the scaled difference d*old (or a price) does not fit 53 bits
					huge := num.Cmp(two53) >= 0 || new(big.Int).SetUint64(nw).Cmp(two53) >= 0
					evals++
					want := refDeviated(d, old, nw)
					got := signaller.VerifIsDeviated(d, old, nw)
					at := isExact && ci%3 == 0
					if at {
						exact++
					}
					switch {
					case want && !got && huge:
						bigNeg++
						if assignable[d] {
							bigNegAssignable++
						}
						if firstBig == "" || (assignable[d] && bigNegAssignable == 1) {
							firstBig = fmt.Sprintf("d=%d old=%d new=%d", d, old, nw)
						}
						bigList = append(bigList, [3]uint64{uint64(d), old, nw})
					case !want && got && huge:
						hugePos++
					case want && !got:
						fneg++
						if os.Getenv("VERIF_C20_DUMPC") != "" {
							fmt.Printf("FN d=%d old=%d new=%d exact=%v assignable=%v\n", d, old, nw, at, assignable[d])
						}
						fp := "deviation-at-threshold-judged-not-deviated:float64-exact-range"
						_ = at
						if fneg <= 40 {
							r.Violate(map[string]any{"part": "c"}, []string{fmt.Sprintf("isDeviated(%d,%d,%d)", d, old, nw)}, fp,
								"isDeviated(d=%d bp, old=%d, new=%d) = false; exact: |new-old|*10^4 = %s >= d*old = %s", d, old, nw,
								new(big.Int).Mul(big.NewInt(10000), new(big.Int).Abs(new(big.Int).Sub(new(big.Int).SetUint64(nw), new(big.Int).SetUint64(old)))), num)
						}
					case !want && got:
						fpos++ // submits although below the threshold: not fixed by the statement, recorded
					}
				}
			}
		}
	}
	sweep(sweepOld)
	sweep(sweepOldLarge)
	// most realistic first: a deviation value the chain assigns by default, then the smallest price
	sort.SliceStable(bigList, func(i, j int) bool {
		ai, aj := assignable[int64(bigList[i][0])], assignable[int64(bigList[j][0])]
		if ai != aj {
			return ai
		}
		return bigList[i][1] < bigList[j][1]
	})
	for i, e := range bigList {
		if i >= 24 {
			break
		}
		d, old, nw := int64(e[0]), e[1], e[2]
		if i == 0 {
			firstBig = fmt.Sprintf("d=%d old=%d new=%d", d, old, nw)
		}
		r.Violate(map[string]any{"part": "c"}, []string{fmt.Sprintf("isDeviated(%d,%d,%d)", d, old, nw)}, "deviation-at-threshold-judged-not-deviated:scaled-difference-beyond-2^53",
			"isDeviated(d=%d bp, old=%d, new=%d) = false although |new-old|*10^4 = %s >= d*old = %s (exact integers); d*old >= 2^53, so the daemon's float64 product is rounded; deviation value assigned by the chain's default parameters: %v", d, old, nw,
			new(big.Int).Mul(big.NewInt(10000), new(big.Int).Abs(new(big.Int).Sub(new(big.Int).SetUint64(nw), new(big.Int).SetUint64(old)))), new(big.Int).Mul(big.NewInt(d), new(big.Int).SetUint64(old)), assignable[d])
	}
	hugeNeg, firstHuge = bigNeg, firstBig
	r.Evaluations += evals
	r.Traces += evals
	r.Transitions += evals
	r.Outcomes["c:evaluations"] = evals
	r.Outcomes["c:exactly-at-threshold-cases"] = exact
	r.Outcomes["c:below-threshold-judged-deviated(recorded)"] = fpos
	r.Outcomes["c:scaled-difference-beyond-2^53:threshold-move-judged-not-deviated"] = hugeNeg
	r.Outcomes["c:scaled-difference-beyond-2^53:below-threshold-judged-deviated(recorded)"] = hugePos
	if firstHuge != "" {
		r.Notes = append(r.Notes, "part c: misjudged threshold move with d*old >= 2^53: "+firstHuge)
	}
	r.Configs = append(r.Configs, map[string]any{"part": "c", "deviations": "1..10000", "old_prices": sweepOld, "old_prices_large": sweepOldLarge, "evaluations": evals})
	fmt.Printf("[C20c] isDeviated sweep: evaluations=%d exactly-at-threshold=%d false-negatives=%d false-positives(recorded)=%d; d*old>=2^53: false-negatives=%d (at chain-default deviation values: %d) false-positives=%d %s\n",
		evals, exact, fneg, fpos, hugeNeg, bigNegAssignable, hugePos, firstHuge)
}
