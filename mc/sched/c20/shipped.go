package c20

import (
	"fmt"
	"go/ast"
	"go/parser"
	"go/token"
	"os"
	"path/filepath"
	"strconv"

	"github.com/bandprotocol/chain/v3/zzverif/engine"
)

// loadShipped reads the shipped timing configuration from cmd/grogu/cmd/run.go of the tree under
// test: the defaults of the two distribution flags and the polling interval handed to
// signaller.New.  Anything it cannot read is a harness error, never a pass.
func loadShipped() string {
	repo := os.Getenv("VERIF_REPO")
	if repo == "" {
		repo = "/repo"
	}
	file := filepath.Join(repo, "cmd", "grogu", "cmd", "run.go")
	fset := token.NewFileSet()
	f, err := parser.ParseFile(fset, file, nil, 0)
	if err != nil {
		engine.Fatal3("C20: cannot parse %s: %v", file, err)
	}
	got := map[string]uint64{}
	poll := ""
	ast.Inspect(f, func(n ast.Node) bool {
		call, ok := n.(*ast.CallExpr)
		if !ok {
			return true
		}
		sel, ok := call.Fun.(*ast.SelectorExpr)
		if !ok {
			return true
		}
		if sel.Sel.Name == "Uint64" && len(call.Args) >= 2 {
			if id, ok := call.Args[0].(*ast.Ident); ok && (id.Name == "flagDistrStartPct" || id.Name == "flagDistrOffsetPct") {
				if lit, ok := call.Args[1].(*ast.BasicLit); ok {
					if v, err := strconv.ParseUint(lit.Value, 10, 64); err == nil {
						got[id.Name] = v
					}
				}
			}
		}
		if x, ok := sel.X.(*ast.Ident); ok && x.Name == "signaller" && sel.Sel.Name == "New" && len(call.Args) >= 3 {
			if s, ok := call.Args[2].(*ast.SelectorExpr); ok {
				if px, ok := s.X.(*ast.Ident); ok {
					poll = px.Name + "." + s.Sel.Name
				}
			}
		}
		return true
	})
	st, ok1 := got["flagDistrStartPct"]
	of, ok2 := got["flagDistrOffsetPct"]
	if !ok1 || !ok2 || of == 0 {
		engine.Fatal3("C20: cannot read the distribution flag defaults from %s (%v)", file, got)
	}
	if poll != "time.Second" {
		engine.Fatal3("C20: the signaller's polling interval in %s is %q; the harness models one poll per second", file, poll)
	}
	shippedStartPct, shippedOffsetPct = st, of
	return fmt.Sprintf("distribution start %d %%, offset %d %%, polling interval %s (from %s)", st, of, poll, file)
}
