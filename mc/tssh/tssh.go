// Package tssh holds the shared TSS driver of the /verif harness: deterministic member accounts,
// a DKG run through the real message handlers, deterministic one-time nonce pairs (DEs) with their
// private parts, and member-side partial signing (the same call sequence as
// cylinder/workers/signing.handleSigning).
package tssh

import (
	"crypto/sha256"
	"encoding/binary"
	"encoding/hex"
	"fmt"
	"math/rand"
	"sync"
	"time"

	sdk "github.com/cosmos/cosmos-sdk/types"
	authtypes "github.com/cosmos/cosmos-sdk/x/auth/types"
	banktypes "github.com/cosmos/cosmos-sdk/x/bank/types"
	govtypes "github.com/cosmos/cosmos-sdk/x/gov/types"

	"github.com/bandprotocol/chain/v3/pkg/tss"
	bandtesting "github.com/bandprotocol/chain/v3/testing"
	bandtsstypes "github.com/bandprotocol/chain/v3/x/bandtss/types"
	tsstypes "github.com/bandprotocol/chain/v3/x/tss/types"
	"github.com/bandprotocol/chain/v3/zzverif/engine"
)

// Authority is the governance module address (the authority of every module).
var Authority = authtypes.NewModuleAddress(govtypes.ModuleName)

// Accounts returns n deterministic accounts for the given salt.
func Accounts(n int, salt int64) []bandtesting.Account {
	r := rand.New(rand.NewSource(7_000_000 + salt))
	out := make([]bandtesting.Account, n)
	for i := range out {
		out[i] = bandtesting.CreateArbitraryAccount(r)
	}
	return out
}

// Group is the member-side view of one TSS group.
type Group struct {
	ID       tss.GroupID
	N, T     uint64
	Accounts []bandtesting.Account
	R1       []tss.Round1Info
	Enc      []tss.EncSecretShares
	OwnPriv  []tss.Scalar
	DKGCtx   []byte
}

// Index returns the 0-based member index of an address, or -1.
func (g *Group) Index(addr string) int {
	for i, a := range g.Accounts {
		if a.Address.String() == addr {
			return i
		}
	}
	return -1
}

// Must panics on a failed base-building tx.
func Must(r engine.TxResult, what string) {
	if !r.OK() {
		panic(what + ": " + r.Err.Error())
	}
}

// Fund sends uband from the fee payer to addr.
func Fund(w *engine.World, ctx sdk.Context, addr sdk.AccAddress, amt int64) {
	Must(w.Tx(ctx, 0, banktypes.NewMsgSend(bandtesting.FeePayer.Address, addr, sdk.NewCoins(sdk.NewInt64Coin("uband", amt)))), "fund")
}

// ProposeGroup sends MsgTransitionGroup from the authority and returns the member-side group object.
func ProposeGroup(w *engine.World, ctx sdk.Context, accounts []bandtesting.Account, t uint64, execTime time.Time) (*Group, engine.TxResult) {
	var ms []string
	for _, a := range accounts {
		ms = append(ms, a.Address.String())
	}
	res := w.Tx(ctx, 0, bandtsstypes.NewMsgTransitionGroup(ms, t, execTime, Authority.String()))
	if !res.OK() {
		return nil, res
	}
	gid := tss.GroupID(w.App.TSSKeeper.GetGroupCount(ctx))
	dkg, err := w.App.TSSKeeper.GetDKGContext(ctx, gid)
	if err != nil {
		panic(err)
	}
	return &Group{ID: gid, N: uint64(len(accounts)), T: t, Accounts: accounts, DKGCtx: dkg}, res
}

// GenRound1 generates every member's round-1 material (polynomials, one-time keys).
func (g *Group) GenRound1() {
	g.R1 = make([]tss.Round1Info, g.N)
	for i := uint64(0); i < g.N; i++ {
		r1, err := tss.GenerateRound1Info(tss.MemberID(i+1), g.T, g.DKGCtx)
		if err != nil {
			panic(err)
		}
		g.R1[i] = *r1
	}
}

// Round1Msg is member i's honest round-1 message.
func (g *Group) Round1Msg(i int) *tsstypes.MsgSubmitDKGRound1 {
	r1 := g.R1[i]
	info := tsstypes.NewRound1Info(tss.MemberID(i+1), r1.CoefficientCommits, r1.OneTimePubKey, r1.A0Signature, r1.OneTimeSignature)
	return tsstypes.NewMsgSubmitDKGRound1(g.ID, info, g.Accounts[i].Address.String())
}

// GenRound2 computes every member's encrypted shares.
func (g *Group) GenRound2() {
	pubs := make(tss.Points, g.N)
	for i := range g.R1 {
		pubs[i] = g.R1[i].OneTimePubKey
	}
	g.Enc = make([]tss.EncSecretShares, g.N)
	for i := uint64(0); i < g.N; i++ {
		enc, err := tss.ComputeEncryptedSecretShares(tss.MemberID(i+1), g.R1[i].OneTimePrivKey, pubs, g.R1[i].Coefficients, tss.DefaultNonce16Generator{})
		if err != nil {
			panic(err)
		}
		g.Enc[i] = enc
	}
}

// Round2Msg is member i's honest round-2 message.
func (g *Group) Round2Msg(i int) *tsstypes.MsgSubmitDKGRound2 {
	return tsstypes.NewMsgSubmitDKGRound2(g.ID, tsstypes.NewRound2Info(tss.MemberID(i+1), g.Enc[i]), g.Accounts[i].Address.String())
}

// SecretShareFrom decrypts and returns the share dealt by member `from` (0-based) to member `to`.
func (g *Group) SecretShareFrom(from, to int) (tss.Scalar, error) {
	mid := tss.MemberID(to + 1)
	if from == to {
		return tss.ComputeSecretShare(g.R1[from].Coefficients, mid)
	}
	keySym, err := tss.ComputeSecretSym(g.R1[to].OneTimePrivKey, g.R1[from].OneTimePubKey)
	if err != nil {
		return nil, err
	}
	idx := to
	if to > from {
		idx = to - 1
	}
	return tss.DecryptSecretShare(g.Enc[from][idx], keySym)
}

// GenRound3 computes each member's own private key from the shares (honest run: all verify).
func (g *Group) GenRound3() {
	g.OwnPriv = make([]tss.Scalar, g.N)
	for to := 0; to < int(g.N); to++ {
		shares := make(tss.Scalars, g.N)
		for from := 0; from < int(g.N); from++ {
			s, err := g.SecretShareFrom(from, to)
			if err != nil {
				panic(err)
			}
			if err := tss.VerifySecretShare(tss.MemberID(to+1), s, g.R1[from].CoefficientCommits); err != nil {
				panic(fmt.Sprintf("share %d->%d does not verify: %v", from, to, err))
			}
			shares[from] = s
		}
		priv, err := tss.ComputeOwnPrivateKey(shares...)
		if err != nil {
			panic(err)
		}
		g.OwnPriv[to] = priv
	}
}

// ConfirmMsg is member i's honest confirm message.
func (g *Group) ConfirmMsg(i int) *tsstypes.MsgConfirm {
	sig, err := tss.SignOwnPubKey(tss.MemberID(i+1), g.DKGCtx, g.OwnPriv[i].Point(), g.OwnPriv[i])
	if err != nil {
		panic(err)
	}
	return tsstypes.NewMsgConfirm(g.ID, tss.MemberID(i+1), sig, g.Accounts[i].Address.String())
}

// RunDKG drives an honest DKG to completion: round 1, block, round 2, block, confirms, block.
// It returns the context after the third block.
func (g *Group) RunDKG(w *engine.World, ctx sdk.Context) sdk.Context {
	step := func() {
		next, br := w.Block(ctx, 1, 3*time.Second)
		if br.Halt != "" {
			panic("halt during DKG: " + br.Halt)
		}
		ctx = next
	}
	g.GenRound1()
	for i := 0; i < int(g.N); i++ {
		Must(w.Tx(ctx, 0, g.Round1Msg(i)), "round1")
	}
	step()
	g.GenRound2()
	for i := 0; i < int(g.N); i++ {
		Must(w.Tx(ctx, 0, g.Round2Msg(i)), "round2")
	}
	step()
	g.GenRound3()
	for i := 0; i < int(g.N); i++ {
		Must(w.Tx(ctx, 0, g.ConfirmMsg(i)), "confirm")
	}
	step()
	grp := w.App.TSSKeeper.MustGetGroup(ctx, g.ID)
	if grp.Status != tsstypes.GROUP_STATUS_ACTIVE {
		panic("group not active after honest DKG: " + grp.Status.String())
	}
	return ctx
}

// SetupCurrentGroup builds the standard TSS base state on ctx: parameters set, a group of n members
// with threshold t created by a real DKG through the message handlers and installed as the bandtss
// current group by executing the scheduled transition.  Returns the advanced context.
type Params struct {
	SigningPeriod     uint64
	MaxSigningAttempt uint64
	MaxDESize         uint64
	CreationPeriod    uint64
	MaxGroupSize      uint64
}

// ApplyParams writes tss/bandtss parameters used by the harness.
func ApplyParams(w *engine.World, ctx sdk.Context, p Params) {
	tp := w.App.TSSKeeper.GetParams(ctx)
	if p.SigningPeriod != 0 {
		tp.SigningPeriod = p.SigningPeriod
	}
	if p.MaxSigningAttempt != 0 {
		tp.MaxSigningAttempt = p.MaxSigningAttempt
	}
	if p.MaxDESize != 0 {
		tp.MaxDESize = p.MaxDESize
	}
	if p.CreationPeriod != 0 {
		tp.CreationPeriod = p.CreationPeriod
	}
	if p.MaxGroupSize != 0 {
		tp.MaxGroupSize = p.MaxGroupSize
	}
	if err := w.App.TSSKeeper.SetParams(ctx, tp); err != nil {
		panic(err)
	}
	bp := w.App.BandtssKeeper.GetParams(ctx)
	bp.MinTransitionDuration = time.Second
	if err := w.App.BandtssKeeper.SetParams(ctx, bp); err != nil {
		panic(err)
	}
}

// SetupCurrentGroup: see above.
func SetupCurrentGroup(w *engine.World, ctx sdk.Context, n int, t uint64, salt int64) (*Group, sdk.Context) {
	accs := Accounts(n, salt)
	for _, a := range accs {
		Fund(w, ctx, a.Address, 1_000_000)
	}
	exec := ctx.BlockTime().Add(20 * time.Second)
	g, res := ProposeGroup(w, ctx, accs, t, exec)
	Must(res, "transition group")
	ctx = g.RunDKG(w, ctx)
	for ctx.BlockTime().Before(exec.Add(3 * time.Second)) {
		next, br := w.Block(ctx, 1, 3*time.Second)
		if br.Halt != "" {
			panic("halt: " + br.Halt)
		}
		ctx = next
	}
	if cur := w.App.BandtssKeeper.GetCurrentGroup(ctx).GroupID; cur != g.ID {
		panic(fmt.Sprintf("current group is %d, expected %d", cur, g.ID))
	}
	return g, ctx
}

// ---- deterministic DEs --------------------------------------------------------------------------

// PrivDE is a nonce pair with its private scalars.
type PrivDE struct {
	Member string
	K      uint64
	Pub    tsstypes.DE
	PrivD tss.Scalar
	PrivE tss.Scalar
}

var deBook sync.Map // hex(pubD)|hex(pubE) -> PrivDE

func scalarFrom(tag string, member string, k uint64) tss.Scalar {
	var b [8]byte
	binary.BigEndian.PutUint64(b[:], k)
	h := sha256.Sum256(append(append([]byte(tag+"|"+member+"|"), b[:]...)))
	h[0] &= 0x7f // keep well below the group order
	if h[31] == 0 {
		h[31] = 1
	}
	s, err := tss.NewScalar(h[:])
	if err != nil {
		panic(err)
	}
	return s
}

// DE returns the k-th deterministic nonce pair of a member: a unique token, the same in every
// process and on every path, so that states reached by different orders converge.
func DE(member string, k uint64) PrivDE {
	d := scalarFrom("D", member, k)
	e := scalarFrom("E", member, k)
	p := PrivDE{Member: member, K: k, Pub: tsstypes.NewDE(d.Point(), e.Point()), PrivD: d, PrivE: e}
	deBook.Store(deKey(p.Pub.PubD, p.Pub.PubE), p)
	return p
}

func deKey(d, e tss.Point) string { return hex.EncodeToString(d) + "|" + hex.EncodeToString(e) }

// LookupDE finds the private part of a public nonce pair generated by DE.
func LookupDE(d, e tss.Point) (PrivDE, bool) {
	v, ok := deBook.Load(deKey(d, e))
	if !ok {
		return PrivDE{}, false
	}
	return v.(PrivDE), true
}

// SubmitDEsMsg builds MsgSubmitDEs with the DEs numbered [from, from+count) of the member.
func SubmitDEsMsg(member string, from, count uint64) *tsstypes.MsgSubmitDEs {
	var des []tsstypes.DE
	for k := from; k < from+count; k++ {
		des = append(des, DE(member, k).Pub)
	}
	return tsstypes.NewMsgSubmitDEs(des, member)
}

// ---- member-side signing -------------------------------------------------------------------------

// PartialSig computes the member's partial signature for the current attempt of a signing exactly as
// the cylinder signing worker does (own private nonce from D,E and the binding factor; Lagrange
// coefficient over the assigned member ids; tss.SignSigning).
func (g *Group) PartialSig(signing tsstypes.Signing, sa tsstypes.SigningAttempt, memberID tss.MemberID) (tss.Signature, error) {
	ams := tsstypes.AssignedMembers(sa.AssignedMembers)
	var am tsstypes.AssignedMember
	for _, x := range ams {
		if x.MemberID == memberID {
			am = x
		}
	}
	if am.MemberID == 0 {
		return nil, fmt.Errorf("member %d not assigned", memberID)
	}
	de, ok := LookupDE(am.PubD, am.PubE)
	if !ok {
		return nil, fmt.Errorf("unknown DE assigned to member %d", memberID)
	}
	privNonce, err := tss.ComputeOwnPrivNonce(de.PrivD, de.PrivE, am.BindingFactor)
	if err != nil {
		return nil, err
	}
	lag, err := tss.ComputeLagrangeCoefficient(memberID, ams.MemberIDs())
	if err != nil {
		return nil, err
	}
	return tss.SignSigning(signing.GroupPubNonce, signing.GroupPubKey, signing.Message, lag, privNonce, g.OwnPriv[int(memberID)-1])
}

// SubmitSigMsg builds the honest MsgSubmitSignature of a member for the current attempt.
func (g *Group) SubmitSigMsg(w *engine.World, ctx sdk.Context, sid tss.SigningID, memberID tss.MemberID) (*tsstypes.MsgSubmitSignature, error) {
	signing, err := w.App.TSSKeeper.GetSigning(ctx, sid)
	if err != nil {
		return nil, err
	}
	sa, err := w.App.TSSKeeper.GetSigningAttempt(ctx, sid, signing.CurrentAttempt)
	if err != nil {
		return nil, err
	}
	sig, err := g.PartialSig(signing, sa, memberID)
	if err != nil {
		return nil, err
	}
	return tsstypes.NewMsgSubmitSignature(sid, memberID, sig, g.Accounts[int(memberID)-1].Address.String()), nil
}
