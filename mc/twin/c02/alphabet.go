package c02

import (
	"fmt"
	"math"
	"strings"
	"time"

	sdkmath "cosmossdk.io/math"

	sdk "github.com/cosmos/cosmos-sdk/types"
	banktypes "github.com/cosmos/cosmos-sdk/x/bank/types"
	stakingtypes "github.com/cosmos/cosmos-sdk/x/staking/types"

	"github.com/bandprotocol/chain/v3/pkg/tss"
	bandtesting "github.com/bandprotocol/chain/v3/testing"
	"github.com/bandprotocol/chain/v3/testing/testdata"
	bandtsstypes "github.com/bandprotocol/chain/v3/x/bandtss/types"
	feedstypes "github.com/bandprotocol/chain/v3/x/feeds/types"
	globalfeetypes "github.com/bandprotocol/chain/v3/x/globalfee/types"
	oracletypes "github.com/bandprotocol/chain/v3/x/oracle/types"
	restaketypes "github.com/bandprotocol/chain/v3/x/restake/types"
	tsstypes "github.com/bandprotocol/chain/v3/x/tss/types"
	tunneltypes "github.com/bandprotocol/chain/v3/x/tunnel/types"
	"github.com/bandprotocol/chain/v3/zzverif/engine"
	"github.com/bandprotocol/chain/v3/zzverif/tssh"
	"github.com/bandprotocol/chain/v3/zzverif/twin"
)

const (
	sigA = "CS:AAA-USD"
	sigB = "CS:BBB-USD"
)

func uband(n int64) sdk.Coins { return sdk.NewCoins(sdk.NewInt64Coin("uband", n)) }

// ---- base states ---------------------------------------------------------------------------------

func prepPlain(w *engine.World, ctx sdk.Context, info map[string]any) sdk.Context {
	for _, v := range bandtesting.Validators[:2] { // validator 2 stays oracle-inactive in the plain base
		tssh.Must(w.Tx(ctx, 0, oracletypes.NewMsgActivate(v.ValAddress)), "activate")
	}
	info["members"] = tssh.Accounts(3, 1)
	return ctx
}

func prepBusy(w *engine.World, ctx sdk.Context, info map[string]any) sdk.Context {
	for _, v := range bandtesting.Validators {
		tssh.Must(w.Tx(ctx, 0, oracletypes.NewMsgActivate(v.ValAddress)), "activate")
	}
	fp := w.App.FeedsKeeper.GetParams(ctx)
	fp.PowerStepThreshold = 10
	fp.CurrentFeedsUpdateInterval = 2
	fp.MaxCurrentFeeds = 5
	fp.CooldownTime = 3
	tssh.Must(w.Tx(ctx, 0, feedstypes.NewMsgUpdateParams(tssh.Authority.String(), fp)), "feeds params")
	rp := w.App.RestakeKeeper.GetParams(ctx)
	rp.AllowedDenoms = []string{"uband"}
	tssh.Must(w.Tx(ctx, 0, restaketypes.NewMsgUpdateParams(tssh.Authority.String(), rp)), "restake params")
	tp := w.App.TunnelKeeper.GetParams(ctx)
	tp.MinDeposit = uband(100)
	tp.BasePacketFee = uband(5)
	tssh.Must(w.Tx(ctx, 0, tunneltypes.NewMsgUpdateParams(tssh.Authority.String(), tp)), "tunnel params")
	tssh.ApplyParams(w, ctx, tssh.Params{SigningPeriod: 3, MaxSigningAttempt: 2, MaxDESize: 10, CreationPeriod: 6})
	// a second fee denomination exists and Alice holds some (transactions may pay their fee in any denomination)
	odd := sdk.NewCoins(sdk.NewInt64Coin("uabc", 1_000_000))
	if err := w.App.BankKeeper.MintCoins(ctx, "mint", odd); err != nil {
		panic(err)
	}
	if err := w.App.BankKeeper.SendCoinsFromModuleToAccount(ctx, "mint", bandtesting.Alice.Address, odd); err != nil {
		panic(err)
	}
	// votes -> current feeds
	tssh.Must(w.Tx(ctx, 0, restaketypes.NewMsgStake(bandtesting.Alice.Address, uband(100))), "stake")
	tssh.Must(w.Tx(ctx, 0, feedstypes.NewMsgVote(bandtesting.Alice.Address.String(), []feedstypes.Signal{{ID: sigA, Power: 60}, {ID: sigB, Power: 40}})), "vote")
	// validators 0 and 2 end up with exactly equal bonded tokens, and all validators report in the same block with
	// different prices: full ties (time, power) in the price aggregation, so its result depends on the order in
	// which validators are visited
	tssh.Must(w.Tx(ctx, 0, stakingtypes.NewMsgDelegate(bandtesting.FeePayer.Address.String(), bandtesting.Validators[2].ValAddress.String(), sdk.NewInt64Coin("uband", 1))), "delegate")
	g, ctx := tssh.SetupCurrentGroup(w, ctx, 3, 2, 1)
	for i := range g.Accounts {
		tssh.Must(w.Tx(ctx, 0, tssh.SubmitDEsMsg(g.Accounts[i].Address.String(), 0, 4)), "DEs")
	}
	if len(w.App.FeedsKeeper.GetCurrentFeeds(ctx).Feeds) != 2 {
		panic("busy base: current feeds not set")
	}
	now := ctx.BlockTime().Unix()
	for vi, v := range bandtesting.Validators {
		prices := []feedstypes.SignalPrice{
			feedstypes.NewSignalPrice(feedstypes.SIGNAL_PRICE_STATUS_AVAILABLE, sigA, uint64(1000+vi)),
			feedstypes.NewSignalPrice(feedstypes.SIGNAL_PRICE_STATUS_AVAILABLE, sigB, uint64(2000+vi)),
		}
		tssh.Must(w.Tx(ctx, 0, feedstypes.NewMsgSubmitSignalPrices(v.ValAddress.String(), now, prices)), "prices")
	}
	ctx, _ = w.Block(ctx, 1, 0)
	// tunnels
	sds := []tunneltypes.SignalDeviation{tunneltypes.NewSignalDeviation(sigA, 100, 300), tunneltypes.NewSignalDeviation(sigB, 100, 300)}
	m1, err := tunneltypes.NewMsgCreateTSSTunnel(sds, 60, "eth", "0xabc", feedstypes.ENCODER_FIXED_POINT_ABI, uband(100), bandtesting.Alice.Address.String())
	if err != nil {
		panic(err)
	}
	tssh.Must(w.Tx(ctx, 0, m1), "create tss tunnel")
	tssh.Must(w.Tx(ctx, 0, banktypes.NewMsgSend(bandtesting.FeePayer.Address, sdk.MustAccAddressFromBech32(w.App.TunnelKeeper.MustGetTunnel(ctx, 1).FeePayer), uband(1000))), "fund tunnel fee payer")
	tssh.Must(w.Tx(ctx, 0, tunneltypes.NewMsgActivate(1, bandtesting.Alice.Address.String())), "activate tunnel")
	m2, err := tunneltypes.NewMsgCreateIBCTunnel(sds[:1], 120, uband(10), bandtesting.Bob.Address.String())
	if err != nil {
		panic(err)
	}
	tssh.Must(w.Tx(ctx, 0, m2), "create ibc tunnel")
	// open oracle request
	tssh.Must(w.Tx(ctx, 0, oracletypes.NewMsgRequestData(1, []byte("cd"), 2, 1, "cid", bandtesting.Coins100000000uband, bandtesting.TestDefaultPrepareGas, bandtesting.TestDefaultExecuteGas, bandtesting.FeePayer.Address, oracletypes.ENCODER_UNSPECIFIED)), "request")
	req := w.App.OracleKeeper.MustGetRequest(ctx, 1)
	info["requested_validators"] = req.RequestedValidators
	// pending signing with the honest shares precomputed
	rs, _ := bandtsstypes.NewMsgRequestSignature(tsstypes.NewTextSignatureOrder([]byte("hello")), uband(1000), bandtesting.Alice.Address.String())
	tssh.Must(w.Tx(ctx, 0, rs), "request signature")
	sid := tss.SigningID(w.App.TSSKeeper.GetSigningCount(ctx))
	signing := w.App.TSSKeeper.MustGetSigning(ctx, sid)
	sa := w.App.TSSKeeper.MustGetSigningAttempt(ctx, sid, signing.CurrentAttempt)
	var shares []*tsstypes.MsgSubmitSignature
	var signers []bandtesting.Account
	for _, am := range sa.AssignedMembers {
		m, err := g.SubmitSigMsg(w, ctx, sid, am.MemberID)
		if err != nil {
			panic(err)
		}
		shares = append(shares, m)
		signers = append(signers, g.Accounts[int(am.MemberID)-1])
	}
	info["members"] = g.Accounts
	info["group_id"] = uint64(g.ID)
	info["signing_id"] = uint64(sid)
	info["shares"] = shares
	info["share_signers"] = signers
	info["busy"] = true
	return ctx
}

// prepSlash: a delegator whose whole power is locked by a feeds vote holds a redelegation that is still subject to
// slashing for an infraction of its source validator (ordinary user transactions only: delegate, vote, redelegate, vote).
func prepSlash(w *engine.World, ctx sdk.Context, info map[string]any) sdk.Context {
	for _, v := range bandtesting.Validators {
		tssh.Must(w.Tx(ctx, 0, oracletypes.NewMsgActivate(v.ValAddress)), "activate")
	}
	d := tssh.Accounts(1, 91)[0] // a fresh account: no genesis delegation
	tssh.Must(w.Tx(ctx, 0, banktypes.NewMsgSend(bandtesting.FeePayer.Address, d.Address, uband(1_000_000))), "fund delegator")
	info["slash_delegator"] = d.Address.String()
	v0, v1, v2 := bandtesting.Validators[0], bandtesting.Validators[1], bandtesting.Validators[2]
	amt := sdk.NewInt64Coin("uband", 400_000)
	tssh.Must(w.Tx(ctx, 0, stakingtypes.NewMsgDelegate(d.Address.String(), v0.ValAddress.String(), amt)), "delegate v0")
	tssh.Must(w.Tx(ctx, 0, stakingtypes.NewMsgDelegate(d.Address.String(), v2.ValAddress.String(), amt)), "delegate v2")
	tssh.Must(w.Tx(ctx, 0, feedstypes.NewMsgVote(d.Address.String(), []feedstypes.Signal{{ID: sigA, Power: 400_000}})), "vote 400k")
	ctx, _ = w.Block(ctx, 1, 0)
	// half of the power moves from validator 0 to validator 1: at no point is the bonded amount below the lock
	tssh.Must(w.Tx(ctx, 0, stakingtypes.NewMsgBeginRedelegate(d.Address.String(), v0.ValAddress.String(), v1.ValAddress.String(), amt)), "redelegate v0->v1")
	info["redelegation_height"] = ctx.BlockHeight()
	info["redelegation_time"] = ctx.BlockTime()
	ctx, _ = w.Block(ctx, 1, 0)
	tssh.Must(w.Tx(ctx, 0, feedstypes.NewMsgVote(d.Address.String(), []feedstypes.Signal{{ID: sigA, Power: 800_000}})), "vote 800k")
	info["members"] = tssh.Accounts(3, 1)
	return ctx
}

// ---- transaction alphabet ------------------------------------------------------------------------

func valAcc(i int) bandtesting.Account { return bandtesting.Validators[i] }

func one(m sdk.Msg) func(map[string]any) []sdk.Msg {
	return func(map[string]any) []sdk.Msg { return []sdk.Msg{m} }
}

func members(info map[string]any) []bandtesting.Account {
	return info["members"].([]bandtesting.Account)
}

// Alphabet returns the transaction generators: one representative valid and 1-3 adversarial variants
// of every message type of the oracle, tss, bandtss, feeds, tunnel, restake and globalfee modules.
func Alphabet(info map[string]any) []*twin.TxGen {
	A, B, FP := bandtesting.Alice, bandtesting.Bob, bandtesting.FeePayer
	mem := members(info)
	big := bandtesting.Coins100000000uband
	var out []*twin.TxGen
	add := func(name string, signer bandtesting.Account, msgs ...sdk.Msg) {
		ms := msgs
		out = append(out, &twin.TxGen{Name: name, Signer: signer, Msgs: func(map[string]any) []sdk.Msg { return ms }})
	}
	// ---- oracle ----
	add("oracle.request.ok", FP, oracletypes.NewMsgRequestData(1, []byte("cd"), 2, 1, "c", big, bandtesting.TestDefaultPrepareGas, bandtesting.TestDefaultExecuteGas, FP.Address, oracletypes.ENCODER_UNSPECIFIED))
	add("oracle.request.tss-encoder", FP, oracletypes.NewMsgRequestData(1, []byte("cd"), 1, 1, "c", big, bandtesting.TestDefaultPrepareGas, bandtesting.TestDefaultExecuteGas, FP.Address, oracletypes.ENCODER_FULL_ABI))
	add("oracle.request.no-script", FP, oracletypes.NewMsgRequestData(9999, []byte("cd"), 1, 1, "c", big, bandtesting.TestDefaultPrepareGas, bandtesting.TestDefaultExecuteGas, FP.Address, oracletypes.ENCODER_UNSPECIFIED))
	add("oracle.request.gas-max", FP, oracletypes.NewMsgRequestData(1, []byte("cd"), 1, 1, "c", big, math.MaxUint64, math.MaxUint64, FP.Address, oracletypes.ENCODER_UNSPECIFIED))
	add("oracle.request.ask-too-many", FP, oracletypes.NewMsgRequestData(1, []byte("cd"), 17, 1, "c", big, bandtesting.TestDefaultPrepareGas, bandtesting.TestDefaultExecuteGas, FP.Address, oracletypes.ENCODER_UNSPECIFIED))
	add("oracle.request.do-nothing-script", FP, oracletypes.NewMsgRequestData(3, []byte("cd"), 1, 1, "c", big, bandtesting.TestDefaultPrepareGas, bandtesting.TestDefaultExecuteGas, FP.Address, oracletypes.ENCODER_UNSPECIFIED))
	raw := []oracletypes.RawReport{oracletypes.NewRawReport(1, 0, []byte("a")), oracletypes.NewRawReport(2, 0, []byte("b")), oracletypes.NewRawReport(3, 0, []byte("c"))}
	for i := 0; i < 2; i++ {
		add("oracle.report.req1.v"+string(rune('0'+i)), valAcc(i), oracletypes.NewMsgReportData(1, raw, valAcc(i).ValAddress))
	}
	add("oracle.report.no-request", valAcc(0), oracletypes.NewMsgReportData(math.MaxUint64, raw, valAcc(0).ValAddress))
	add("oracle.report.wrong-eids", valAcc(2), oracletypes.NewMsgReportData(1, raw[:1], valAcc(2).ValAddress))
	add("oracle.report.unauthorised-signer", A, oracletypes.NewMsgReportData(1, raw, valAcc(0).ValAddress))
	add("oracle.create-ds.ok", A, oracletypes.NewMsgCreateDataSource("n", "d", []byte("exec"), uband(1), A.Address, A.Address, A.Address))
	add("oracle.create-ds.huge-fee", A, oracletypes.NewMsgCreateDataSource("n", "d", []byte("x"), sdk.NewCoins(sdk.NewCoin("uband", sdkmath.NewIntFromUint64(math.MaxUint64).MulRaw(1000))), A.Address, A.Address, A.Address))
	add("oracle.edit-ds.no-such", A, oracletypes.NewMsgEditDataSource(9999, "n", "d", []byte("x"), uband(1), A.Address, A.Address, A.Address))
	add("oracle.create-os.garbage", A, oracletypes.NewMsgCreateOracleScript("n", "d", "s", "u", []byte("not wasm"), A.Address, A.Address))
	add("oracle.edit-os.by-owner", bandtesting.Owner, oracletypes.NewMsgEditOracleScript(1, "n2", "d2", "s2", "u2", testdata.WasmExtra1, bandtesting.Owner.Address, bandtesting.Owner.Address))
	add("oracle.edit-os.not-owner", B, oracletypes.NewMsgEditOracleScript(1, "n", "d", "s", "u", []byte("not wasm"), B.Address, B.Address))
	add("oracle.activate.already", valAcc(0), oracletypes.NewMsgActivate(valAcc(0).ValAddress))
	add("oracle.activate.v2", valAcc(2), oracletypes.NewMsgActivate(valAcc(2).ValAddress))
	add("oracle.edit-ds.by-owner", bandtesting.Owner, oracletypes.NewMsgEditDataSource(1, "n", "d", []byte("exec2"), uband(1), bandtesting.Owner.Address, bandtesting.Owner.Address, bandtesting.Owner.Address))
	add("multi.edit-ds-then-request", bandtesting.Owner, oracletypes.NewMsgEditDataSource(1, "n", "d", oracletypes.DoNotModifyBytes, uband(1), bandtesting.Owner.Address, bandtesting.Owner.Address, bandtesting.Owner.Address),
		oracletypes.NewMsgRequestData(1, []byte("cd"), 1, 1, "c", big, bandtesting.TestDefaultPrepareGas, bandtesting.TestDefaultExecuteGas, bandtesting.Owner.Address, oracletypes.ENCODER_UNSPECIFIED))
	add("oracle.activate.not-validator", A, oracletypes.NewMsgActivate(sdk.ValAddress(A.Address)))
	add("oracle.update-params.not-authority", A, oracletypes.NewMsgUpdateParams(A.Address.String(), oracletypes.DefaultParams()))
	// ---- tss ----
	add("tss.submit-des.ok", mem[0], tssh.SubmitDEsMsg(mem[0].Address.String(), 100, 2))
	add("tss.submit-des.too-many", mem[1], tssh.SubmitDEsMsg(mem[1].Address.String(), 200, 12))
	add("tss.submit-des.stranger", B, tssh.SubmitDEsMsg(B.Address.String(), 0, 1))
	add("tss.reset-de", mem[2], tsstypes.NewMsgResetDE(mem[2].Address.String()))
	garbageSig, _ := tss.NewSignatureFromComponents(tssh.DE("x", 1).Pub.PubD, tssh.DE("x", 2).PrivD)
	add("tss.submit-signature.garbage", mem[0], tsstypes.NewMsgSubmitSignature(1, 1, garbageSig, mem[0].Address.String()))
	add("tss.submit-signature.no-signing", mem[0], tsstypes.NewMsgSubmitSignature(math.MaxUint64, 1, garbageSig, mem[0].Address.String()))
	if sh, ok := info["shares"].([]*tsstypes.MsgSubmitSignature); ok {
		signers := info["share_signers"].([]bandtesting.Account)
		for i := range sh {
			add("tss.submit-signature.ok."+string(rune('0'+i)), signers[i], sh[i])
		}
	}
	g2 := &tssh.Group{ID: 1, N: 3, T: 2, Accounts: mem, DKGCtx: []byte("ctx")}
	g2.GenRound1()
	add("tss.round1.finished-group", mem[0], g2.Round1Msg(0))
	g9 := *g2
	g9.ID = 999
	add("tss.round1.no-group", mem[0], g9.Round1Msg(0))
	add("tss.confirm.garbage", mem[1], tsstypes.NewMsgConfirm(1, 2, garbageSig, mem[1].Address.String()))
	cs, _ := tss.NewComplaintSignatureFromComponents(tssh.DE("x", 1).Pub.PubD, tssh.DE("x", 1).Pub.PubE, tssh.DE("x", 2).PrivD)
	add("tss.complain.finished-group", mem[2], tsstypes.NewMsgComplain(1, []tsstypes.Complaint{{Complainant: 3, Respondent: 1, KeySym: tssh.DE("x", 3).Pub.PubD, Signature: cs}}, mem[2].Address.String()))
	add("tss.update-params.not-authority", A, tsstypes.NewMsgUpdateParams(A.Address.String(), tsstypes.DefaultParams()))
	// ---- bandtss ----
	rs := func(content tsstypes.Content, limit sdk.Coins, sender bandtesting.Account) sdk.Msg {
		m, err := bandtsstypes.NewMsgRequestSignature(content, limit, sender.Address.String())
		if err != nil {
			panic(err)
		}
		return m
	}
	add("bandtss.request-signature.ok", A, rs(tsstypes.NewTextSignatureOrder([]byte("m")), uband(1000), A))
	add("bandtss.request-signature.fee-limit-0", A, rs(tsstypes.NewTextSignatureOrder([]byte("m")), sdk.NewCoins(), A))
	add("bandtss.request-signature.too-long", A, rs(tsstypes.NewTextSignatureOrder([]byte(strings.Repeat("x", 1001))), uband(1000), A))
	add("bandtss.request-signature.internal-content", A, rs(bandtsstypes.NewGroupTransitionSignatureOrder(tssh.DE("x", 1).Pub.PubD, time.Unix(1, 0)), uband(1000), A))
	add("bandtss.request-signature.oracle-result", A, rs(oracletypes.NewOracleResultSignatureOrder(1, oracletypes.ENCODER_PROTO), uband(1000), A))
	add("bandtss.request-signature.feeds-prices", A, rs(feedstypes.NewFeedSignatureOrder([]string{sigA, sigB, "CS:NONE-USD"}, feedstypes.ENCODER_TICK_ABI), uband(1000), A))
	add("bandtss.request-signature.poor", tssh.Accounts(1, 99)[0], rs(tsstypes.NewTextSignatureOrder([]byte("m")), uband(1000), tssh.Accounts(1, 99)[0]))
	add("bandtss.activate.member", mem[0], bandtsstypes.NewMsgActivate(mem[0].Address.String(), 1))
	add("bandtss.activate.stranger", B, bandtsstypes.NewMsgActivate(B.Address.String(), 1))
	add("bandtss.transition.not-authority", A, bandtsstypes.NewMsgTransitionGroup([]string{A.Address.String(), B.Address.String()}, 1, time.Unix(2_000_000_000, 0), A.Address.String()))
	add("bandtss.force-transition.not-authority", A, bandtsstypes.NewMsgForceTransitionGroup(1, time.Unix(2_000_000_000, 0), A.Address.String()))
	add("bandtss.update-params.not-authority", A, bandtsstypes.NewMsgUpdateParams(A.Address.String(), bandtsstypes.DefaultParams()))
	// ---- feeds ----
	add("feeds.vote.ok", A, restaketypes.NewMsgStake(A.Address, uband(50)), feedstypes.NewMsgVote(A.Address.String(), []feedstypes.Signal{{ID: sigB, Power: 30}, {ID: "CS:CCC-USD", Power: 20}}))
	for _, gas := range []uint64{70_000, 85_000, 100_000, 115_000, 130_000, 145_000, 160_000} {
		g := gas
		ms := []sdk.Msg{feedstypes.NewMsgVote(A.Address.String(), []feedstypes.Signal{{ID: sigB, Power: 30}, {ID: "CS:CCC-USD", Power: 20}, {ID: "CS:DDD-USD", Power: 10}, {ID: "CS:EEE-USD", Power: 5}})}
		out = append(out, &twin.TxGen{Name: fmt.Sprintf("feeds.vote.gas-%d", g), Signer: A, Gas: g, Msgs: func(map[string]any) []sdk.Msg { return ms }})
	}
	add("feeds.vote.empty", A, feedstypes.NewMsgVote(A.Address.String(), nil))
	add("feeds.vote.over-power", B, feedstypes.NewMsgVote(B.Address.String(), []feedstypes.Signal{{ID: sigA, Power: 1 << 40}}))
	add("feeds.vote.wrap", B, feedstypes.NewMsgVote(B.Address.String(), []feedstypes.Signal{{ID: sigA, Power: math.MaxInt64}, {ID: sigB, Power: math.MaxInt64}, {ID: "C", Power: 2}}))
	price := func(v int, ts int64, sps ...feedstypes.SignalPrice) sdk.Msg {
		return feedstypes.NewMsgSubmitSignalPrices(valAcc(v).ValAddress.String(), ts, sps)
	}
	// valid submissions of extreme prices by the two large validators (two of them move the published price, and with it
	// every tunnel's deviation arithmetic, to the extreme)
	if _, busy := info["busy"]; busy {
		now := engine.GenesisTime.Unix() + 33
		for _, v := range []int{0, 2} {
			for _, pv := range []struct {
				n string
				p uint64
			}{{"max", math.MaxUint64}, {"one", 1}} {
				add(fmt.Sprintf("feeds.prices.%s.v%d", pv.n, v), valAcc(v), price(v, now,
					feedstypes.NewSignalPrice(feedstypes.SIGNAL_PRICE_STATUS_AVAILABLE, sigA, pv.p), feedstypes.NewSignalPrice(feedstypes.SIGNAL_PRICE_STATUS_AVAILABLE, sigB, pv.p)))
			}
		}
	}
	add("feeds.prices.ts-far", valAcc(0), price(0, 1, feedstypes.NewSignalPrice(feedstypes.SIGNAL_PRICE_STATUS_AVAILABLE, sigA, 5)))
	add("feeds.prices.unknown-signal", valAcc(1), price(1, engine.GenesisTime.Unix()+60, feedstypes.NewSignalPrice(feedstypes.SIGNAL_PRICE_STATUS_AVAILABLE, "CS:ZZZ-USD", 5)))
	add("feeds.prices.by-non-validator", A, feedstypes.NewMsgSubmitSignalPrices(sdk.ValAddress(A.Address).String(), engine.GenesisTime.Unix()+60, []feedstypes.SignalPrice{feedstypes.NewSignalPrice(feedstypes.SIGNAL_PRICE_STATUS_AVAILABLE, sigA, 5)}))
	add("feeds.update-ref-config.not-admin", A, feedstypes.NewMsgUpdateReferenceSourceConfig(A.Address.String(), feedstypes.NewReferenceSourceConfig("hash", "1.0.0")))
	add("feeds.update-params.not-authority", A, feedstypes.NewMsgUpdateParams(A.Address.String(), feedstypes.DefaultParams()))
	// ---- tunnel ----
	sds := []tunneltypes.SignalDeviation{tunneltypes.NewSignalDeviation(sigA, 100, 300), tunneltypes.NewSignalDeviation(sigB, 100, 300)}
	mk := func(m sdk.Msg, err error) sdk.Msg {
		if err != nil {
			panic(err)
		}
		return m
	}
	add("tunnel.create-tss.ok", A, mk(tunneltypes.NewMsgCreateTSSTunnel(sds, 60, "eth", "0xabc", feedstypes.ENCODER_TICK_ABI, uband(100), A.Address.String())))
	add("tunnel.create-ibc.ok", B, mk(tunneltypes.NewMsgCreateIBCTunnel(sds, 60, uband(1), B.Address.String())))
	add("tunnel.create.interval-0", A, mk(tunneltypes.NewMsgCreateTSSTunnel(sds, 0, "eth", "0xabc", feedstypes.ENCODER_TICK_ABI, uband(100), A.Address.String())))
	add("tunnel.create.dup-signals", A, mk(tunneltypes.NewMsgCreateTSSTunnel(append(sds, sds[0]), 60, "eth", "0xabc", feedstypes.ENCODER_TICK_ABI, uband(100), A.Address.String())))
	add("tunnel.create.deposit-too-big", A, mk(tunneltypes.NewMsgCreateTSSTunnel(sds, 60, "eth", "0xabc", feedstypes.ENCODER_TICK_ABI, uband(1<<50), A.Address.String())))
	add("tunnel.update-route.ibc", B, mk(tunneltypes.NewMsgUpdateIBCRoute(2, "channel-0", B.Address.String())))
	add("tunnel.update-signals", A, tunneltypes.NewMsgUpdateSignalsAndInterval(1, sds[:1], 3600, A.Address.String()))
	add("tunnel.update-signals.not-creator", B, tunneltypes.NewMsgUpdateSignalsAndInterval(1, sds[:1], 3600, B.Address.String()))
	add("tunnel.activate.ibc-no-channel", B, tunneltypes.NewMsgActivate(2, B.Address.String()))
	add("tunnel.deactivate", A, tunneltypes.NewMsgDeactivate(1, A.Address.String()))
	add("tunnel.trigger", A, tunneltypes.NewMsgTriggerTunnel(1, A.Address.String()))
	add("tunnel.trigger.no-tunnel", A, tunneltypes.NewMsgTriggerTunnel(math.MaxUint64, A.Address.String()))
	add("tunnel.deposit", B, tunneltypes.NewMsgDepositToTunnel(1, uband(7), B.Address.String()))
	add("tunnel.withdraw.all", A, tunneltypes.NewMsgWithdrawFromTunnel(1, uband(100), A.Address.String()))
	add("tunnel.withdraw.too-much", A, tunneltypes.NewMsgWithdrawFromTunnel(1, uband(101), A.Address.String()))
	add("tunnel.update-params.not-authority", A, tunneltypes.NewMsgUpdateParams(A.Address.String(), tunneltypes.DefaultParams()))
	// ---- restake ----
	add("restake.stake.ok", B, restaketypes.NewMsgStake(B.Address, uband(10)))
	add("restake.stake.bad-denom", B, restaketypes.NewMsgStake(B.Address, sdk.NewCoins(sdk.NewInt64Coin("stake", 1))))
	add("restake.unstake.locked", A, restaketypes.NewMsgUnstake(A.Address, uband(100)))
	add("restake.unstake.too-much", B, restaketypes.NewMsgUnstake(B.Address, uband(1<<40)))
	add("restake.update-params.not-authority", A, restaketypes.NewMsgUpdateParams(A.Address.String(), restaketypes.DefaultParams()))
	// ---- globalfee ----
	add("globalfee.update-params.not-authority", A, &globalfeetypes.MsgUpdateParams{Authority: A.Address.String(), Params: globalfeetypes.DefaultParams()})
	// ---- multi-message tx whose last message fails ----
	add("multi.request-signature-then-fail", A, rs(tsstypes.NewTextSignatureOrder([]byte("m2")), uband(1000), A), banktypes.NewMsgSend(A.Address, B.Address, sdk.NewCoins(sdk.NewInt64Coin("nope", 1))))
	// ---- fees paid in a second denomination (any denomination is accepted at min gas price 0); the amounts straddle the
	// number of rewarded tss members, so that a member's share of that denomination truncates to zero ----
	if _, busy := info["busy"]; busy {
		for _, amt := range []int64{1, 25, 50, 80, 100, 250} {
			out = append(out, &twin.TxGen{Name: fmt.Sprintf("fee.second-denom.%d", amt), Signer: A, Fee: sdk.NewCoins(sdk.NewInt64Coin("uabc", amt)),
				Msgs: one(banktypes.NewMsgSend(A.Address, bandtesting.Bob.Address, uband(1)))})
		}
	}
	return out
}

// AuthoritySims are governance-authority messages a node may be asked to *simulate* (signatures are not verified in
// simulation mode, so anybody can); they are executed on a discarded branch and must not influence consensus.
func AuthoritySims(app interface{}, info map[string]any) []*twin.TxGen {
	auth := tssh.Authority.String()
	fp := feedstypes.DefaultParams()
	fp.Admin = auth
	fp.CurrentFeedsUpdateInterval = 3
	fp.MaxCurrentFeeds = 1
	fp.PowerStepThreshold = 50
	fp.CooldownTime = 1
	fp.PriceQuorum = "0.95"
	fp.GracePeriod = 1
	fp.MinInterval = 1
	fp.MaxInterval = 2
	tp := tunneltypes.DefaultParams()
	tp.BasePacketFee = uband(999)
	tp.MinDeposit = uband(1)
	op := oracletypes.DefaultParams()
	op.ExpirationBlockCount = 1
	op.SamplingTryCount = 1
	tsp := tsstypes.DefaultParams()
	tsp.SigningPeriod = 1
	tsp.MaxDESize = 1
	bp := bandtsstypes.DefaultParams()
	bp.FeePerSigner = uband(77)
	bp.RewardPercentage = 99
	rp := restaketypes.DefaultParams()
	var out []*twin.TxGen
	add := func(name string, m sdk.Msg) {
		ms := []sdk.Msg{m}
		out = append(out, &twin.TxGen{Name: "sim." + name, Signer: bandtesting.Carol, Msgs: func(map[string]any) []sdk.Msg { return ms }})
	}
	add("feeds.params", feedstypes.NewMsgUpdateParams(auth, fp))
	add("tunnel.params", tunneltypes.NewMsgUpdateParams(auth, tp))
	add("oracle.params", oracletypes.NewMsgUpdateParams(auth, op))
	add("tss.params", tsstypes.NewMsgUpdateParams(auth, tsp))
	add("bandtss.params", bandtsstypes.NewMsgUpdateParams(auth, bp))
	add("restake.params", restaketypes.NewMsgUpdateParams(auth, rp))
	return out
}
