// Package c02 checks property C02: block execution is total and deterministic.
package c02

import (
	"encoding/json"
	"fmt"
	"go/ast"
	"go/parser"
	"go/token"
	"math"
	"os"
	"path/filepath"
	"reflect"
	"regexp"
	"sort"
	"strings"
	"sync"
	gotime "time"

	abci "github.com/cometbft/cometbft/abci/types"
	cmtproto "github.com/cometbft/cometbft/proto/tendermint/types"

	sdkmath "cosmossdk.io/math"

	sdk "github.com/cosmos/cosmos-sdk/types"

	band "github.com/bandprotocol/chain/v3/app"
	bandtesting "github.com/bandprotocol/chain/v3/testing"
	bandtsstypes "github.com/bandprotocol/chain/v3/x/bandtss/types"
	feedstypes "github.com/bandprotocol/chain/v3/x/feeds/types"
	oracletypes "github.com/bandprotocol/chain/v3/x/oracle/types"
	restaketypes "github.com/bandprotocol/chain/v3/x/restake/types"
	tsstypes "github.com/bandprotocol/chain/v3/x/tss/types"
	tunneltypes "github.com/bandprotocol/chain/v3/x/tunnel/types"
	"github.com/bandprotocol/chain/v3/zzverif/engine"
	"github.com/bandprotocol/chain/v3/zzverif/tssh"
	"github.com/bandprotocol/chain/v3/zzverif/twin"
)

var numRe = regexp.MustCompile(`[0-9]+`)

func normHalt(h string) string {
	h = strings.SplitN(h, "\n", 2)[0]
	if i := strings.Index(h, "): "); i >= 0 && strings.HasPrefix(h, "FinalizeBlock") {
		h = h[i+3:]
	}
	h = numRe.ReplaceAllString(h, "N")
	if len(h) > 160 {
		h = h[:160]
	}
	return h
}

type pathSpec struct {
	base   *twin.Base
	names  []string // tx name per block ("" = empty block); "a+b" = two txs
	blocks []twin.Block
	pre    func(app *band.BandApp) string // optional state preparation on the fresh app; returns "" or a reason to skip
	label  string
}

func byName(alpha []*twin.TxGen) map[string]*twin.TxGen {
	m := map[string]*twin.TxGen{}
	for _, g := range alpha {
		m[g.Name] = g
	}
	return m
}

func mkPath(base *twin.Base, idx map[string]*twin.TxGen, names ...string) pathSpec {
	ps := pathSpec{base: base, names: names}
	for _, n := range names {
		var blk twin.Block
		if n != "" {
			for _, t := range strings.Split(n, "+") {
				g := idx[t]
				if g == nil {
					panic("no tx " + t)
				}
				blk.Txs = append(blk.Txs, g)
			}
		}
		ps.blocks = append(ps.blocks, blk)
	}
	return ps
}

type outcome struct {
	res twin.PathResult
}

// ---- static scan for goroutine creation in repository consensus code -----------------------------

func scanGoStatements(repo string) []string {
	var found []string
	for _, dir := range []string{"x", "app", "pkg"} {
		_ = filepath.Walk(filepath.Join(repo, dir), func(p string, fi os.FileInfo, err error) error {
			if err != nil || fi.IsDir() || !strings.HasSuffix(p, ".go") || strings.HasSuffix(p, "_test.go") || strings.HasSuffix(p, ".pb.gw.go") || strings.HasSuffix(p, ".pb.go") || strings.HasSuffix(p, ".pulsar.go") {
				return nil
			}
			if strings.Contains(p, "/client/") || strings.Contains(p, "/simulation/") || strings.Contains(p, "/testutil/") || strings.Contains(p, "zzverif") {
				return nil
			}
			fset := token.NewFileSet()
			f, err := parser.ParseFile(fset, p, nil, 0)
			if err != nil {
				return nil
			}
			ast.Inspect(f, func(n ast.Node) bool {
				if g, ok := n.(*ast.GoStmt); ok {
					found = append(found, fmt.Sprintf("%s:%d", strings.TrimPrefix(p, repo+"/"), fset.Position(g.Pos()).Line))
				}
				return true
			})
			return nil
		})
	}
	sort.Strings(found)
	return found
}

// ---- parameter corners -----------------------------------------------------------------------------

type corner struct {
	Module string
	Field  string
	Value  string
	msg    sdk.Msg
}

func candidates(f reflect.StructField) []reflect.Value {
	var out []reflect.Value
	switch f.Type.Kind() {
	case reflect.Uint64:
		vals := []uint64{0, 1, math.MaxUint64}
		if strings.Contains(f.Name, "Percentage") {
			vals = append(vals, 100, 101, 150)
		}
		for _, v := range vals {
			out = append(out, reflect.ValueOf(v).Convert(f.Type))
		}
	case reflect.Int64:
		for _, v := range []int64{0, 1, -1, math.MaxInt64} {
			out = append(out, reflect.ValueOf(v).Convert(f.Type))
		}
	case reflect.Bool:
		out = append(out, reflect.ValueOf(true), reflect.ValueOf(false))
	case reflect.String:
		if f.Name == "PriceQuorum" {
			for _, v := range []string{"0", "0.000000000000000001", "0.5", "1", "1.000000000000000001", "2"} {
				out = append(out, reflect.ValueOf(v))
			}
		}
	case reflect.Slice:
		if f.Type == reflect.TypeOf(sdk.Coins{}) {
			out = append(out, reflect.ValueOf(sdk.Coins{}), reflect.ValueOf(sdk.NewCoins(sdk.NewInt64Coin("uband", math.MaxInt64))), reflect.ValueOf(sdk.NewCoins(sdk.NewInt64Coin("uband", 1))))
			// coin lists as a governance proposal can spell them: several denoms in order, out of order, repeated, a zero
			// and a negative amount (the last four are not valid sdk.Coins; whatever validation lets through must not halt)
			mk := func(d string, a int64) sdk.Coin { return sdk.Coin{Denom: d, Amount: sdkmath.NewInt(a)} }
			out = append(out,
				reflect.ValueOf(sdk.Coins{mk("aband", 5), mk("uband", 10000)}),
				reflect.ValueOf(sdk.Coins{mk("uband", 10000), mk("aband", 5)}),
				reflect.ValueOf(sdk.Coins{mk("uband", 1), mk("uband", 2)}),
				reflect.ValueOf(sdk.Coins{mk("uband", 0)}),
				reflect.ValueOf(sdk.Coins{mk("uband", -1)}))
		}
		if f.Type == reflect.TypeOf([]string{}) {
			out = append(out, reflect.ValueOf([]string{}), reflect.ValueOf([]string{"uband"}), reflect.ValueOf([]string{"uband", "aband"}),
				reflect.ValueOf([]string{"uband", "uband"}), reflect.ValueOf([]string{""}))
		}
	}
	return out
}

// corners enumerates one-parameter-off-default configurations of the five parameterised modules.
func corners(app *band.BandApp, ctx sdk.Context) []corner {
	var out []corner
	auth := tssh.Authority.String()
	add := func(module string, params any, mk func(p any) sdk.Msg) {
		t := reflect.TypeOf(params)
		for i := 0; i < t.NumField(); i++ {
			f := t.Field(i)
			for _, c := range candidates(f) {
				pv := reflect.New(t).Elem()
				pv.Set(reflect.ValueOf(params))
				pv.Field(i).Set(c)
				out = append(out, corner{Module: module, Field: f.Name, Value: fmt.Sprint(c.Interface()), msg: mk(pv.Interface())})
			}
		}
	}
	add("oracle", app.OracleKeeper.GetParams(ctx), func(p any) sdk.Msg { return oracletypes.NewMsgUpdateParams(auth, p.(oracletypes.Params)) })
	add("tss", app.TSSKeeper.GetParams(ctx), func(p any) sdk.Msg { return tsstypes.NewMsgUpdateParams(auth, p.(tsstypes.Params)) })
	add("bandtss", app.BandtssKeeper.GetParams(ctx), func(p any) sdk.Msg { return bandtsstypes.NewMsgUpdateParams(auth, p.(bandtsstypes.Params)) })
	add("feeds", app.FeedsKeeper.GetParams(ctx), func(p any) sdk.Msg { return feedstypes.NewMsgUpdateParams(auth, p.(feedstypes.Params)) })
	add("tunnel", app.TunnelKeeper.GetParams(ctx), func(p any) sdk.Msg { return tunneltypes.NewMsgUpdateParams(auth, p.(tunneltypes.Params)) })
	add("restake", app.RestakeKeeper.GetParams(ctx), func(p any) sdk.Msg { return restaketypes.NewMsgUpdateParams(auth, p.(restaketypes.Params)) })
	return out
}

func cmtHeader(h int64) cmtproto.Header {
	return cmtproto.Header{ChainID: engine.ChainID, Height: h, Time: engine.GenesisTime.Add(gotime.Duration(h-1) * 3 * gotime.Second)}
}

var exclusive sync.RWMutex

// runShared / confirmPair: ordinary runs hold the lock shared; a confirmation re-executes both replicas
// while nothing else runs in the process.
func confirmPair(p pathSpec, dev twin.Deviation) (twin.PathResult, twin.PathResult, bool) {
	exclusive.Lock()
	defer exclusive.Unlock()
	a := twin.RunPath(p.base, p.blocks, twin.Deviation{Index: -1}, false)
	b := twin.RunPath(p.base, p.blocks, dev, false)
	ok, _ := twin.Equal(a, b)
	return a, b, ok
}

// ---- the check -------------------------------------------------------------------------------------

func run(r *engine.Run) {
	quick := r.Quick()
	deadline := r.Deadline(20*gotime.Minute, 60*gotime.Minute)
	r.Bound = "(plus: a replica that Simulates every alphabet tx and six authority parameter updates on discarded branches before each block, and a replica restarted on its own database before every later block) bases {plain, busy}; busy: all sequences of 2 blocks with 0-1 tx from the 90-tx cross-module alphabet (valid + adversarial variants of every message type); plain: 1 block; every map iteration executed in repository code on the block goroutine deviated to every start position (1 deviation); wall clock skewed +-1h; every numeric/decimal/coin module parameter at {smallest, 1, largest of its type, percentage corners} one at a time if accepted by MsgUpdateParams, followed by a 6-block workload"
	r.Assumptions = []string{
		"map iteration order: replica A forces start (bucket 0, offset 0) for every iteration on the block goroutine; replica B deviates one iteration whose range statement is in repository code; iterations in upstream code (SDK, CometBFT, IAVL) are executed canonically in both replicas (thorough deviates a bounded number of them too)",
		"goroutines: repository consensus code starts none (static scan of go statements, listed in the evidence); goroutines of upstream iterator plumbing are not controlled",
		"transactions are signed with real keys and pass through the real ante chain; zero fees (min gas price 0 in the test app)",
		"busy base state is prepared through real message handlers between real FinalizeBlock/Commit calls",
	}
	tally := engine.NewTally()
	plain := twin.BuildBase("plain", prepPlain)
	busy := twin.BuildBase("busy", prepBusy)
	alphaBusy := Alphabet(busy.Info)
	alphaPlain := Alphabet(plain.Info)
	idxBusy, idxPlain := byName(alphaBusy), byName(alphaPlain)
	fmt.Printf("[C02] bases built: plain@%d busy@%d, alphabet %d txs (%.1fs)\n", plain.Height, busy.Height, len(alphaBusy), gotime.Since(gotime.Now()).Seconds())

	// --- (a) paths, replica A ---
	var paths []pathSpec
	namesBusy := []string{""}
	for _, g := range alphaBusy {
		namesBusy = append(namesBusy, g.Name)
	}
	for _, a := range namesBusy {
		for _, b := range namesBusy {
			paths = append(paths, mkPath(busy, idxBusy, a, b))
		}
	}
	paths = append(paths, mkPath(plain, idxPlain, ""))
	for _, g := range alphaPlain {
		if _, ok := plain.Info["shares"]; !ok && strings.HasPrefix(g.Name, "tss.submit-signature.ok") {
			continue
		}
		paths = append(paths, mkPath(plain, idxPlain, g.Name, ""))
	}
	// double-sign evidence against each validator, for an infraction at the height of the delegator's redelegation, on a
	// base where that delegator's whole power is locked (slashing reaches into the redelegated stake)
	slash := twin.BuildBase("slash", prepSlash)
	idxSlash := byName(Alphabet(slash.Info))
	for vi, v := range bandtesting.Validators {
		ps := mkPath(slash, idxSlash, "", "")
		ps.names = []string{fmt.Sprintf("evidence:duplicate-vote:v%d@redelegation-height", vi), ""}
		ps.blocks[0].Misbehavior = []abci.Misbehavior{{Type: abci.MisbehaviorType_DUPLICATE_VOTE,
			Validator: abci.Validator{Address: v.PubKey.Address(), Power: []int64{100, 1, 99}[vi]},
			Height:    slash.Info["redelegation_height"].(int64), Time: slash.Info["redelegation_time"].(gotime.Time), TotalVotingPower: 200}}
		paths = append(paths, ps)
	}
	// empty blocks under every last-commit voting-power vector over {1,2,5,8}^3 (reward allocation arithmetic)
	for _, a := range []int64{1, 2, 5, 8} {
		for _, b := range []int64{1, 2, 5, 8} {
			for _, c := range []int64{1, 2, 5, 8} {
				ps := mkPath(busy, idxBusy, "", "")
				ps.names = []string{fmt.Sprintf("powers=%d/%d/%d", a, b, c), ""}
				ps.blocks[0].Powers = []int64{a, b, c}
				paths = append(paths, ps)
			}
		}
	}
	if !quick {
		// same-object two-tx blocks and three-block paths over a reduced alphabet
		same := [][]string{
			{"oracle.report.req1.v0", "oracle.report.req1.v1"}, {"tss.submit-signature.ok.0", "tss.submit-signature.ok.1"},
			{"tunnel.trigger", "tunnel.deactivate"}, {"tunnel.withdraw.all", "tunnel.trigger"}, {"feeds.vote.ok", "feeds.vote.empty"},
			{"bandtss.request-signature.ok", "tss.reset-de"}, {"tss.reset-de", "bandtss.request-signature.ok"}, {"tunnel.deposit", "tunnel.withdraw.too-much"},
			{"oracle.request.tss-encoder", "tss.reset-de"}, {"restake.stake.ok", "feeds.vote.over-power"},
		}
		for _, s := range same {
			for _, tail := range namesBusy {
				paths = append(paths, mkPath(busy, idxBusy, s[0]+"+"+s[1], tail))
				paths = append(paths, mkPath(busy, idxBusy, s[1]+"+"+s[0], tail))
			}
		}
		red := []string{"", "oracle.request.tss-encoder", "oracle.report.req1.v0", "oracle.report.req1.v1", "tss.submit-signature.ok.0", "tss.submit-signature.ok.1", "tss.reset-de", "bandtss.request-signature.ok", "feeds.vote.ok", "tunnel.trigger", "tunnel.withdraw.all", "tunnel.deactivate", "restake.unstake.locked"}
		for _, a := range red {
			for _, b := range red {
				for _, c := range red {
					paths = append(paths, mkPath(busy, idxBusy, a, b, c, "", ""))
				}
			}
		}
	}
	if os.Getenv("VERIF_C02_ONLY") == "corners" { // development aid
		paths = paths[:1]
	}
	resA := make([]twin.PathResult, len(paths))
	done := make([]bool, len(paths))
	complete := engine.ParallelFor(int64(len(paths)), 0, deadline, func(_ int, i int64) {
		exclusive.RLock()
		resA[i] = twin.RunPath(paths[i].base, paths[i].blocks, twin.Deviation{Index: -1}, true)
		exclusive.RUnlock()
		done[i] = true
		tally.Eval()
	})
	if !complete {
		r.Exhaustive = false
		r.CapReasons = append(r.CapReasons, "path enumeration: time cap")
	}
	siteCount := map[string]int{}
	repoSites := map[string]int{}
	for i, p := range paths {
		if !done[i] {
			continue
		}
		res := resA[i]
		key := p.base.Name + ":" + strings.Join(p.names, " / ")
		for _, l := range res.Logs {
			tally.Saw("encode-problem")
			_ = l
		}
		if res.Halt != "" {
			tally.Violate(map[string]any{"base": p.base.Name, "blocks": p.names}, p.names, "C02/halt:"+normHalt(res.Halt)+"|"+p.base.Name+"|"+strings.Join(p.names, ","), res.Halt)
			continue
		}
		sig := ""
		for _, b := range res.Blocks {
			for _, t := range b.Txs {
				sig += fmt.Sprintf("%s/%d;", t.Codespace, t.Code)
				tally.Saw(fmt.Sprintf("tx-code:%s/%d", t.Codespace, t.Code))
			}
		}
		tally.Nontrivial(key + "=>" + sig)
		for _, o := range res.Occs {
			siteCount[o.Site]++
			if o.Repo {
				repoSites[o.Site]++
			}
		}
		if i%997 == 0 {
			tally.Sample(8, map[string]any{"base": p.base.Name, "blocks": p.names, "result": res.Blocks})
		}
	}
	fmt.Printf("[C02] replica A: %d paths, %d violations so far; map-iteration sites seen: %d (repository: %d)\n", len(paths), tally.Violations(), len(siteCount), len(repoSites))

	// --- (b) replica B: one deviated map iteration at repository sites (thorough: also upstream sites, bounded) ---
	type devJob struct {
		path int
		occ  twin.Occ
		seed uintptr
	}
	var jobs []devJob
	seenSig := map[string]bool{} // (path prefix signature, site, count) -> avoid re-deviating identical iterations of identical paths
	devExh := true
	for i, p := range paths {
		if !done[i] || resA[i].Halt != "" {
			continue
		}
		for _, o := range resA[i].Occs {
			if o.Count < 2 {
				continue
			}
			if !o.Repo {
				if quick {
					continue
				}
				// upstream site: one representative path per (site, count)
				k := fmt.Sprintf("up|%s|%d", o.Site, o.Count)
				if seenSig[k] {
					continue
				}
				seenSig[k] = true
			}
			seeds, ex := twin.SeedsFor(o.B, 64)
			if !ex {
				devExh = false
			}
			for _, s := range seeds {
				jobs = append(jobs, devJob{path: i, occ: o, seed: s})
			}
		}
		_ = p
	}
	var dmu sync.Mutex
	devOK := 0
	complete = engine.ParallelFor(int64(len(jobs)), 0, deadline, func(_ int, j int64) {
		job := jobs[j]
		p := paths[job.path]
		exclusive.RLock()
		resB := twin.RunPath(p.base, p.blocks, twin.Deviation{Index: job.occ.Index, Value: job.seed}, false)
		exclusive.RUnlock()
		tally.Eval()
		if ok, why := twin.Equal(resA[job.path], resB); !ok {
			// confirm with both replicas re-executed alone in the process before believing it
			a2, b2, same := confirmPair(p, twin.Deviation{Index: job.occ.Index, Value: job.seed})
			if same {
				tally.Saw("harness-flake:replica-difference-not-reproduced")
				return
			}
			_, why = twin.Equal(a2, b2)
			tally.Violate(map[string]any{"base": p.base.Name, "blocks": p.names, "deviated_iteration": job.occ, "seed": job.seed}, p.names,
				"C02/nondeterminism:map-iteration-order:"+job.occ.Site, fmt.Sprintf("replica with iteration %d (%s, %d entries) started at seed %d: %s", job.occ.Index, job.occ.Site, job.occ.Count, job.seed, why))
			return
		}
		dmu.Lock()
		devOK++
		dmu.Unlock()
	})
	if !complete || !devExh {
		r.Exhaustive = false
		r.CapReasons = append(r.CapReasons, "map-order deviations: cap")
	}
	tally.Saw("map-deviation-replicas-equal")
	fmt.Printf("[C02] replica B: %d deviated runs, %d equal\n", len(jobs), devOK)

	// --- (c) wall-clock skew: re-run the one-block paths with time.Now shifted ---
	skewPaths := 0
	for _, skew := range []int64{3600, -3600} {
		gotime.VerifClockSkewSec = skew
		var idxs []int
		for i, p := range paths {
			if done[i] && resA[i].Halt == "" && (len(p.names) == 2 && p.names[1] == "") {
				idxs = append(idxs, i)
			}
		}
		engine.ParallelFor(int64(len(idxs)), 0, deadline, func(_ int, j int64) {
			i := idxs[j]
			exclusive.RLock()
			resB := twin.RunPath(paths[i].base, paths[i].blocks, twin.Deviation{Index: -1}, false)
			exclusive.RUnlock()
			tally.Eval()
			if ok, why := twin.Equal(resA[i], resB); !ok {
				exclusive.Lock()
				gotime.VerifClockSkewSec = 0
				a2 := twin.RunPath(paths[i].base, paths[i].blocks, twin.Deviation{Index: -1}, false)
				gotime.VerifClockSkewSec = skew
				b2 := twin.RunPath(paths[i].base, paths[i].blocks, twin.Deviation{Index: -1}, false)
				exclusive.Unlock()
				if same, _ := twin.Equal(a2, b2); same {
					tally.Saw("harness-flake:replica-difference-not-reproduced")
					return
				}
				tally.Violate(map[string]any{"base": paths[i].base.Name, "blocks": paths[i].names, "clock_skew_s": skew}, paths[i].names, "C02/nondeterminism:wall-clock", why)
			}
		})
		skewPaths += len(idxs)
	}
	gotime.VerifClockSkewSec = 0
	tally.Saw("clock-skew-replicas-equal")

	// --- (c2) discarded simulations: a node that is asked to simulate transactions (gRPC Simulate: real runTx on a
	// discarded branch, signatures not verified, so authority messages too) must finalize the same blocks identically
	simList := append([]*twin.TxGen{}, alphaBusy...)
	simList = append(simList, AuthoritySims(nil, busy.Info)...)
	var simIdx []pathSpec
	for _, g := range append([]string{""}, namesBusy[1:]...) {
		simIdx = append(simIdx, mkPath(busy, idxBusy, g, "", ""))
	}
	simListPlain := append([]*twin.TxGen{}, alphaPlain...)
	simListPlain = append(simListPlain, AuthoritySims(nil, plain.Info)...)
	nBusySims := len(simIdx)
	for _, g := range []string{"", "oracle.request.ok", "oracle.activate.v2", "bandtss.request-signature.ok"} {
		simIdx = append(simIdx, mkPath(plain, idxPlain, g, "", ""))
	}
	simOK, restartOK := 0, 0
	complete = engine.ParallelFor(int64(len(simIdx)), 0, deadline, func(_ int, j int64) {
		p := simIdx[j]
		exclusive.RLock()
		ra := twin.RunPath(p.base, p.blocks, twin.Deviation{Index: -1}, false)
		withSims := make([]twin.Block, len(p.blocks))
		copy(withSims, p.blocks)
		sl := simList
		if int(j) >= nBusySims {
			sl = simListPlain
		}
		for i := range withSims {
			withSims[i].Sims = sl
		}
		rs := twin.RunPath(p.base, withSims, twin.Deviation{Index: -1}, false)
		exclusive.RUnlock()
		tally.Eval()
		tally.Eval()
		if ok, why := twin.Equal(ra, rs); !ok {
			exclusive.Lock()
			ra2 := twin.RunPath(p.base, p.blocks, twin.Deviation{Index: -1}, false)
			rs2 := twin.RunPath(p.base, withSims, twin.Deviation{Index: -1}, false)
			exclusive.Unlock()
			if same, _ := twin.Equal(ra2, rs2); same {
				tally.Saw("harness-flake:replica-difference-not-reproduced")
				return
			}
			// find the simulated transaction that matters (smallest single one), for the fingerprint
			culprit := "several"
			for _, g := range sl {
				one := make([]twin.Block, len(p.blocks))
				copy(one, p.blocks)
				for i := range one {
					one[i].Sims = []*twin.TxGen{g}
				}
				exclusive.Lock()
				r1 := twin.RunPath(p.base, one, twin.Deviation{Index: -1}, false)
				exclusive.Unlock()
				if eq, _ := twin.Equal(ra2, r1); !eq {
					culprit = g.Name
					break
				}
			}
			tally.Violate(map[string]any{"base": p.base.Name, "blocks": p.names, "simulated_before_each_block": culprit}, p.names,
				"C02/nondeterminism:discarded-simulation-influences-blocks:"+culprit, fmt.Sprintf("a node that simulated %s before finalizing differs from one that did not: %s", culprit, why))
			return
		}
		// (c3) restart replica: the node process is restarted (new application object on the same database) before every
		// block after the first; everything it computes must come from committed state
		withRestart := make([]twin.Block, len(p.blocks))
		copy(withRestart, p.blocks)
		for i := 1; i < len(withRestart); i++ {
			withRestart[i].Restart = true
		}
		exclusive.RLock()
		rr := twin.RunPath(p.base, withRestart, twin.Deviation{Index: -1}, false)
		exclusive.RUnlock()
		tally.Eval()
		if ok, why := twin.Equal(ra, rr); !ok {
			exclusive.Lock()
			ra2 := twin.RunPath(p.base, p.blocks, twin.Deviation{Index: -1}, false)
			rr2 := twin.RunPath(p.base, withRestart, twin.Deviation{Index: -1}, false)
			exclusive.Unlock()
			if same, _ := twin.Equal(ra2, rr2); same {
				tally.Saw("harness-flake:replica-difference-not-reproduced")
				return
			}
			tally.Violate(map[string]any{"base": p.base.Name, "blocks": p.names, "restart_before_blocks": "2.."}, p.names,
				"C02/nondeterminism:restarted-node-differs:"+p.names[0], fmt.Sprintf("a node restarted between the blocks differs from one that kept running: %s", why))
			return
		}
		dmu.Lock()
		simOK++
		restartOK++
		dmu.Unlock()
	})
	if !complete {
		r.Exhaustive = false
		r.CapReasons = append(r.CapReasons, "simulation / restart replicas: time cap")
	}
	tally.Saw("simulation-replicas-equal")
	if restartOK > 0 {
		tally.Saw("restart-replicas-equal")
	}
	fmt.Printf("[C02] simulation replicas: %d paths x %d simulated txs, %d equal; restart replicas: %d equal\n", len(simIdx), len(simList), simOK, restartOK)

	// --- (d) parameter corners ---
	probe := busy.NewApp()
	pctx := probe.BaseApp.NewUncachedContext(true, cmtHeader(busy.Height))
	cs := corners(probe, pctx)
	_ = probe.Close()
	workload := []string{
		"oracle.request.ok+bandtss.request-signature.ok+feeds.vote.ok+tunnel.trigger",
		"oracle.report.req1.v0+oracle.report.req1.v1+tss.submit-signature.ok.0+oracle.request.tss-encoder",
		"tss.submit-signature.ok.1+tunnel.deposit", "", "", "", "",
	}
	type cornerRes struct {
		accepted bool
		res      twin.PathResult
	}
	cres := make([]cornerRes, len(cs))
	complete = engine.ParallelFor(int64(len(cs)), 0, deadline, func(_ int, i int64) {
		c := cs[i]
		ps := mkPath(busy, idxBusy, workload...)
		accepted := false
		res := twin.RunPathPre(ps.base, ps.blocks, func(app *band.BandApp) {
			ctx := app.BaseApp.NewUncachedContext(false, cmtHeader(busy.Height+1))
			w := &engine.World{App: app}
			accepted = w.Tx(ctx, 0, c.msg).OK()
		})
		cres[i] = cornerRes{accepted: accepted, res: res}
		tally.Eval()
	})
	if !complete {
		r.Exhaustive = false
		r.CapReasons = append(r.CapReasons, "parameter corners: time cap")
	}
	acc := 0
	for i, c := range cs {
		if !cres[i].accepted {
			tally.Saw("param-rejected-by-validation")
			continue
		}
		acc++
		tally.Saw("param-corner-accepted")
		tally.Nontrivial(fmt.Sprintf("corner|%s.%s=%s", c.Module, c.Field, c.Value))
		if h := cres[i].res.Halt; h != "" {
			tally.Violate(map[string]any{"module": c.Module, "param": c.Field, "value": c.Value, "workload": workload}, []string{fmt.Sprintf("%s.%s=%s", c.Module, c.Field, c.Value)},
				fmt.Sprintf("C02/halt-with-accepted-parameter:%s.%s=%s", c.Module, c.Field, c.Value), fmt.Sprintf("MsgUpdateParams accepted %s.%s=%s; then %s", c.Module, c.Field, c.Value, h))
		}
	}
	fmt.Printf("[C02] parameter corners: %d candidates, %d accepted by validation\n", len(cs), acc)

	// --- (e) goroutines in repository consensus code ---
	repo := os.Getenv("VERIF_REPO")
	if repo == "" {
		repo = "/repo"
	}
	gos := scanGoStatements(repo)
	r.Notes = append(r.Notes, fmt.Sprintf("go statements in repository x/, app/, pkg/ (non-test, non-client): %v", gos))
	if len(gos) > 0 {
		r.Notes = append(r.Notes, "UNMODELLED-CONCURRENCY: repository code starts goroutines at the sites above; schedules are not enumerated (replicas still compared free-running)")
		r.Exhaustive = false
	}
	var sites []string
	for s, n := range repoSites {
		sites = append(sites, fmt.Sprintf("%s x%d", s, n))
	}
	sort.Strings(sites)
	r.Notes = append(r.Notes, fmt.Sprintf("map iterations in repository code on the block goroutine: %v", sites))
	r.Notes = append(r.Notes, fmt.Sprintf("paths=%d deviated-replica-runs=%d clock-skew-runs=%d parameter-corners=%d (accepted %d)", len(paths), len(jobs), skewPaths, len(cs), acc))
	tally.MergeInto(r)
	r.States = len(paths)
	r.Transitions = r.Evaluations
	r.Traces = r.Evaluations
}

func init() {
	engine.Register(&engine.Check{
		ID:  "C02",
		Run: run,
		Replay: func(raw json.RawMessage, path []string) (engine.StepResult, []string) {
			return engine.StepResult{}, []string{"twin counterexample: config holds base, blocks (tx names) and deviation; re-run `bin/check C02 quick` to reproduce: " + fmt.Sprint(path)}
		},
	})
}
