// Package twin is the FinalizeBlock-level engine of the /verif model checker (property C02).
// Paths of blocks are executed on fresh applications through the real FinalizeBlock/Commit (ante
// chain, message router, begin/end blockers, IAVL commit).  Replica A runs with canonical map
// iteration (every iteration on the block goroutine starts at bucket 0, offset 0); replica B runs the
// same blocks with one map iteration deviated.  The Go runtime is overlaid (rt/mkrt.py) to make the
// iteration seed controllable.
package twin

import (
	"encoding/json"
	"fmt"
	"math/rand"
	"os"
	"path/filepath"
	"runtime"
	"runtime/debug"
	"strings"
	"sync"
	"sync/atomic"
	"time"

	abci "github.com/cometbft/cometbft/abci/types"
	cmtproto "github.com/cometbft/cometbft/proto/tendermint/types"

	cosmosdb "github.com/cosmos/cosmos-db"

	coreheader "cosmossdk.io/core/header"
	"cosmossdk.io/log"
	storetypes "cosmossdk.io/store/types"

	"github.com/cosmos/cosmos-sdk/baseapp"
	"github.com/cosmos/cosmos-sdk/testutil/sims"
	sdk "github.com/cosmos/cosmos-sdk/types"

	band "github.com/bandprotocol/chain/v3/app"
	bandtesting "github.com/bandprotocol/chain/v3/testing"
	"github.com/bandprotocol/chain/v3/zzverif/engine"
)

// ---- map iteration hook ------------------------------------------------------------------------

// Occ is one dynamic map iteration executed on the block goroutine inside FinalizeBlock.
type Occ struct {
	Index int    `json:"index"`
	Site  string `json:"site"` // first function above the runtime
	Repo  bool   `json:"repo"` // the range statement is in repository code
	B     uint8  `json:"B"`
	Count int    `json:"count"`
}

type hookState struct {
	active   bool
	inHook   bool
	n        int
	occs     []Occ
	devIndex int     // occurrence to deviate (-1: none)
	devValue uintptr // seed to return there
	record   bool
}

var hooks sync.Map // goid -> *hookState

const repoPrefix = "github.com/bandprotocol/chain/v3/"

func init() {
	runtime.VerifMapIterHook = func(r uintptr, B uint8, count int) uintptr {
		v, ok := hooks.Load(runtime.VerifGoid())
		if !ok {
			return r
		}
		st := v.(*hookState)
		if !st.active || st.inHook {
			return r
		}
		st.inHook = true
		defer func() { st.inHook = false }()
		idx := st.n
		st.n++
		if st.record {
			var pcs [24]uintptr
			n := runtime.Callers(2, pcs[:])
			site := "?"
			frames := runtime.CallersFrames(pcs[:n])
			for {
				f, more := frames.Next()
				if f.Function != "" && !strings.HasPrefix(f.Function, "runtime.") {
					site = f.Function
					break
				}
				if !more {
					break
				}
			}
			repo := strings.HasPrefix(site, repoPrefix) && !strings.Contains(site, "/zzverif/")
			st.occs = append(st.occs, Occ{Index: idx, Site: site, Repo: repo, B: B, Count: count})
		}
		if idx == st.devIndex {
			return st.devValue
		}
		return 0
	}
}

// ---- applications ------------------------------------------------------------------------------

var appSeq int64

func scratch() string {
	if d := os.Getenv("VERIF_BUILD"); d != "" {
		return d
	}
	return "/verif/build"
}

func newHome() string {
	n := atomic.AddInt64(&appSeq, 1)
	home := filepath.Join(scratch(), "homes", fmt.Sprintf("h-%d-t%d", os.Getpid(), n))
	_ = os.RemoveAll(home)
	_ = os.MkdirAll(home, 0o755)
	return home
}

func newApp(db cosmosdb.DB, home string) *band.BandApp {
	return band.NewBandApp(log.NewNopLogger(), db, nil, true, map[int64]bool{}, home, sims.EmptyAppOptions{}, 100,
		baseapp.SetChainID(engine.ChainID))
}

// Base is a committed application state from which paths start.
type Base struct {
	Name   string
	Home   string
	kv     map[string][]byte
	Height int64
	Time   time.Time
	Info   map[string]any // ids and accounts the alphabet refers to
}

func blockTime(h int64) time.Time {
	return engine.GenesisTime.Add(time.Duration(h-1) * 3 * time.Second)
}

var baseMu sync.Mutex

// BuildBase creates a base: genesis, block 1, then `prep` (real handlers through the kvmc seam on the
// uncached working state; every w.Block inside prep is a real empty FinalizeBlock+Commit).
func BuildBase(name string, prep func(w *engine.World, ctx sdk.Context, info map[string]any) sdk.Context) *Base {
	baseMu.Lock()
	defer baseMu.Unlock()
	engine.DetRandReset()
	home := newHome()
	db := cosmosdb.NewMemDB()
	app := newApp(db, home)
	gs := bandtesting.GenesisStateWithValSet(app, home)
	bz, err := json.Marshal(gs)
	if err != nil {
		panic(err)
	}
	if _, err := app.InitChain(&abci.RequestInitChain{Validators: []abci.ValidatorUpdate{}, ConsensusParams: bandtesting.DefaultConsensusParams, AppStateBytes: bz, ChainId: engine.ChainID}); err != nil {
		panic(err)
	}
	commitEmpty := func(h int64) {
		req := &abci.RequestFinalizeBlock{Height: h, Time: blockTime(h), Hash: blockHash(h)}
		if h > 1 {
			req.DecidedLastCommit = lastCommit()
			req.ProposerAddress = bandtesting.Validators[int(h)%len(bandtesting.Validators)].PubKey.Address()
		}
		if _, err := app.FinalizeBlock(req); err != nil {
			panic(fmt.Sprintf("base %s: FinalizeBlock(%d): %v", name, h, err))
		}
		if _, err := app.Commit(); err != nil {
			panic(err)
		}
	}
	commitEmpty(1)
	uncached := func() sdk.Context {
		h := app.LastBlockHeight() + 1
		hdr := cmtproto.Header{ChainID: engine.ChainID, Height: h, Time: blockTime(h)}
		return app.BaseApp.NewUncachedContext(false, hdr).
			WithBlockGasMeter(storetypes.NewInfiniteGasMeter()).WithGasMeter(storetypes.NewInfiniteGasMeter()).
			WithEventManager(sdk.NewEventManager()).
			WithHeaderInfo(coreheader.Info{ChainID: engine.ChainID, Height: h, Time: hdr.Time})
	}
	w := &engine.World{ID: -1, App: app, Home: home}
	w.BlockOverride = func(ctx sdk.Context, dh int64, dt time.Duration) (sdk.Context, engine.BlockResult) {
		commitEmpty(app.LastBlockHeight() + 1)
		return uncached(), engine.BlockResult{}
	}
	w.Root = uncached()
	info := map[string]any{}
	if prep != nil {
		prep(w, w.Root, info)
	}
	// seal the working state into a committed block
	commitEmpty(app.LastBlockHeight() + 1)
	b := &Base{Name: name, Home: home, kv: map[string][]byte{}, Height: app.LastBlockHeight(), Time: blockTime(app.LastBlockHeight()), Info: info}
	it, err := db.Iterator(nil, nil)
	if err != nil {
		panic(err)
	}
	for ; it.Valid(); it.Next() {
		b.kv[string(it.Key())] = append([]byte{}, it.Value()...)
	}
	it.Close()
	return b
}

// lastCommit: all three genesis validators signed the previous block (powers = bonded tokens / 10^6).
func lastCommit(powers ...int64) abci.CommitInfo {
	if len(powers) == 0 {
		powers = []int64{100, 1, 99}
	}
	var votes []abci.VoteInfo
	for i, v := range bandtesting.Validators {
		votes = append(votes, abci.VoteInfo{Validator: abci.Validator{Address: v.PubKey.Address(), Power: powers[i]}, BlockIdFlag: cmtproto.BlockIDFlagCommit})
	}
	return abci.CommitInfo{Votes: votes}
}

func blockHash(h int64) []byte {
	b := make([]byte, 32)
	for i := range b {
		b[i] = byte(h*31 + int64(i)*7)
	}
	return b
}

// NewApp instantiates a fresh application on a copy of the base database.
func (b *Base) NewApp() *band.BandApp {
	app, _ := b.newAppDB()
	return app
}

func (b *Base) newAppDB() (*band.BandApp, cosmosdb.DB) {
	db := cosmosdb.NewMemDB()
	for k, v := range b.kv {
		if err := db.Set([]byte(k), v); err != nil {
			panic(err)
		}
	}
	return newApp(db, b.Home), db // the file cache (oracle scripts, data sources) of the base home is read-only here
}

// ---- transactions ------------------------------------------------------------------------------

// TxGen builds the messages of one transaction from the base's info.
type TxGen struct {
	Name   string
	Signer bandtesting.Account
	Gas    uint64
	Fee    sdk.Coins // nil: 0uband
	Msgs   func(info map[string]any) []sdk.Msg
}

// TxOut is the consensus-relevant part of a tx result.
type TxOut struct {
	Code      uint32 `json:"code"`
	Codespace string `json:"codespace"`
	GasUsed   int64  `json:"gas_used"`
	GasWanted int64  `json:"gas_wanted"`
	Data      string `json:"data"`
}

// BlockOut is the consensus-relevant part of a block result.
type BlockOut struct {
	AppHash string  `json:"app_hash"`
	Txs     []TxOut `json:"txs"`
}

// PathResult is the result of running one path on one replica.
type PathResult struct {
	Blocks []BlockOut
	Halt   string // FinalizeBlock/Commit error or panic
	Occs   []Occ
	Logs   []string
}

// Deviation selects the map iteration to deviate.
type Deviation struct {
	Index int // -1: canonical replica
	Value uintptr
}

// Block is one block of a path.
type Block struct {
	Txs    []*TxGen
	Dt     time.Duration // 0 = 3 s
	Powers []int64       // voting powers of the three validators in the block's last commit (nil = 100,1,99)
	// Sims are executed with the application's Simulate (the gRPC simulation path: runTx in simulate mode on a
	// discarded branch) before the block is finalized.  They must not influence anything.
	Sims []*TxGen
	// Restart: the node process is restarted before this block — a new application object is constructed on the same
	// database (everything that was only in memory is gone, everything committed is reloaded).
	Restart bool
	// Misbehavior is the evidence CometBFT hands to the application with this block (double signing).
	Misbehavior []abci.Misbehavior
}

func signTx(app *band.BandApp, g *TxGen, info map[string]any, seqBump map[string]uint64) ([]byte, error) {
	ctx := app.BaseApp.NewUncachedContext(true, cmtproto.Header{ChainID: engine.ChainID, Height: app.LastBlockHeight()})
	acc := app.AccountKeeper.GetAccount(ctx, g.Signer.Address)
	var num, seq uint64
	if acc != nil {
		num, seq = acc.GetAccountNumber(), acc.GetSequence()
	}
	seq += seqBump[g.Signer.Address.String()]
	seqBump[g.Signer.Address.String()]++
	gas := g.Gas
	if gas == 0 {
		gas = 5_000_000
	}
	fee := sdk.Coins{sdk.NewInt64Coin("uband", 0)}
	if g.Fee != nil {
		fee = g.Fee
	}
	tx, err := bandtesting.GenSignedMockTx(rand.New(rand.NewSource(1)), app.GetTxConfig(), g.Msgs(info), fee, gas, engine.ChainID, []uint64{num}, []uint64{seq}, g.Signer.PrivKey)
	if err != nil {
		return nil, err
	}
	return app.GetTxConfig().TxEncoder()(tx)
}

// RunPath executes blocks on a fresh app of base.
func RunPath(base *Base, blocks []Block, dev Deviation, record bool) PathResult {
	return runPath(base, blocks, dev, record, nil)
}

// RunPathPre is RunPath (canonical replica) with a state preparation step applied to the fresh app's
// working state before the first block (used to install parameter values through MsgUpdateParams).
func RunPathPre(base *Base, blocks []Block, pre func(app *band.BandApp)) PathResult {
	return runPath(base, blocks, Deviation{Index: -1}, false, pre)
}

func runPath(base *Base, blocks []Block, dev Deviation, record bool, pre func(app *band.BandApp)) (res PathResult) {
	app, db := base.newAppDB()
	if pre != nil {
		pre(app)
	}
	goid := runtime.VerifGoid()
	st := &hookState{devIndex: dev.Index, devValue: dev.Value, record: record}
	hooks.Store(goid, st)
	defer hooks.Delete(goid)
	h := base.Height
	t := base.Time
	for bi, blk := range blocks {
		h++
		dt := blk.Dt
		if dt == 0 {
			dt = 3 * time.Second
		}
		t = t.Add(dt)
		if blk.Restart {
			app = newApp(db, base.Home) // MemDB survives; the old object is dropped without Close (a crash, not a shutdown)
			if app.LastBlockHeight() != h-1 {
				res.Halt = fmt.Sprintf("restart before height %d: application reloaded at height %d", h, app.LastBlockHeight())
				break
			}
		}
		for _, g := range blk.Sims {
			bz, err := signTx(app, g, base.Info, map[string]uint64{})
			if err != nil {
				continue
			}
			func() {
				defer func() { _ = recover() }() // a panic inside a simulation is answered with an error by the RPC layer
				_, _, _ = app.Simulate(bz)
			}()
		}
		var txs [][]byte
		bump := map[string]uint64{}
		for _, g := range blk.Txs {
			bz, err := signTx(app, g, base.Info, bump)
			if err != nil {
				res.Logs = append(res.Logs, fmt.Sprintf("block %d tx %s: cannot encode: %v", bi, g.Name, err))
				continue
			}
			txs = append(txs, bz)
		}
		var out *abci.ResponseFinalizeBlock
		var err error
		func() {
			defer func() {
				if r := recover(); r != nil {
					err = fmt.Errorf("panic: %v\n%s", r, trim(debug.Stack()))
				}
				st.active = false
			}()
			st.active = true
			out, err = app.FinalizeBlock(&abci.RequestFinalizeBlock{Height: h, Time: t, Txs: txs, Hash: blockHash(h),
				DecidedLastCommit: lastCommit(blk.Powers...), Misbehavior: blk.Misbehavior, ProposerAddress: bandtesting.Validators[int(h)%len(bandtesting.Validators)].PubKey.Address()})
		}()
		if err != nil {
			res.Halt = fmt.Sprintf("FinalizeBlock height %d (block %d of path): %v", h, bi, err)
			break
		}
		bo := BlockOut{AppHash: fmt.Sprintf("%x", out.AppHash)}
		for _, r := range out.TxResults {
			bo.Txs = append(bo.Txs, TxOut{Code: r.Code, Codespace: r.Codespace, GasUsed: r.GasUsed, GasWanted: r.GasWanted, Data: fmt.Sprintf("%x", r.Data)})
		}
		res.Blocks = append(res.Blocks, bo)
		func() {
			defer func() {
				if r := recover(); r != nil {
					err = fmt.Errorf("panic in Commit: %v", r)
				}
			}()
			_, err = app.Commit()
		}()
		if err != nil {
			res.Halt = fmt.Sprintf("Commit height %d: %v", h, err)
			break
		}
	}
	res.Occs = st.occs
	_ = app.Close()
	return res
}

func trim(b []byte) string {
	var out []string
	for _, l := range strings.Split(string(b), "\n") {
		if strings.Contains(l, "bandprotocol/chain") && !strings.Contains(l, "zzverif") {
			out = append(out, strings.TrimSpace(l))
		}
		if len(out) >= 10 {
			break
		}
	}
	return strings.Join(out, " | ")
}

// SeedsFor enumerates the iteration seeds that produce every start position of a map with 2^B buckets
// (other than the canonical 0); capped.
func SeedsFor(B uint8, cap int) (seeds []uintptr, exhaustive bool) {
	total := 8 << B
	exhaustive = true
	for r := 1; r < total; r++ {
		if len(seeds) >= cap {
			return seeds, false
		}
		seeds = append(seeds, uintptr(r))
	}
	return seeds, exhaustive
}

// Equal compares two replicas.
func Equal(a, b PathResult) (bool, string) {
	if a.Halt != b.Halt {
		return false, fmt.Sprintf("halt differs: %q vs %q", a.Halt, b.Halt)
	}
	if len(a.Blocks) != len(b.Blocks) {
		return false, "number of blocks differs"
	}
	for i := range a.Blocks {
		if a.Blocks[i].AppHash != b.Blocks[i].AppHash {
			return false, fmt.Sprintf("app hash of block %d differs: %s vs %s", i, a.Blocks[i].AppHash, b.Blocks[i].AppHash)
		}
		if fmt.Sprint(a.Blocks[i].Txs) != fmt.Sprint(b.Blocks[i].Txs) {
			return false, fmt.Sprintf("tx results of block %d differ: %v vs %v", i, a.Blocks[i].Txs, b.Blocks[i].Txs)
		}
	}
	return true, ""
}
