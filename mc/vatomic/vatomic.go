// Package vatomic replaces "sync/atomic" in instrumented daemon code: each operation is a scheduling point.
package vatomic

import (
	"sync/atomic"

	"github.com/bandprotocol/chain/v3/zzverif/vsched"
)

func AddInt64(p *int64, d int64) int64     { vsched.Yield(); return atomic.AddInt64(p, d) }
func LoadInt64(p *int64) int64             { vsched.Yield(); return atomic.LoadInt64(p) }
func StoreInt64(p *int64, v int64)         { vsched.Yield(); atomic.StoreInt64(p, v) }
func AddUint64(p *uint64, d uint64) uint64 { vsched.Yield(); return atomic.AddUint64(p, d) }
func LoadUint64(p *uint64) uint64          { vsched.Yield(); return atomic.LoadUint64(p) }
func StoreUint64(p *uint64, v uint64)      { vsched.Yield(); atomic.StoreUint64(p, v) }
func AddInt32(p *int32, d int32) int32     { vsched.Yield(); return atomic.AddInt32(p, d) }
func LoadInt32(p *int32) int32             { vsched.Yield(); return atomic.LoadInt32(p) }
func StoreInt32(p *int32, v int32)         { vsched.Yield(); atomic.StoreInt32(p, v) }
func CompareAndSwapInt64(p *int64, o, n int64) bool {
	vsched.Yield()
	return atomic.CompareAndSwapInt64(p, o, n)
}
