package vsched

// GoN(f, args...) is `go f(args...)`: callee and arguments are evaluated by the caller, the call runs as a new managed thread.
func Go0(f func())                                                { Go(f) }
func Go1[A0 any](f func(A0), a0 A0)                               { Go(func() { f(a0) }) }
func Go2[A0, A1 any](f func(A0, A1), a0 A0, a1 A1)                { Go(func() { f(a0, a1) }) }
func Go3[A0, A1, A2 any](f func(A0, A1, A2), a0 A0, a1 A1, a2 A2) { Go(func() { f(a0, a1, a2) }) }
func Go4[A0, A1, A2, A3 any](f func(A0, A1, A2, A3), a0 A0, a1 A1, a2 A2, a3 A3) {
	Go(func() { f(a0, a1, a2, a3) })
}
func Go5[A0, A1, A2, A3, A4 any](f func(A0, A1, A2, A3, A4), a0 A0, a1 A1, a2 A2, a3 A3, a4 A4) {
	Go(func() { f(a0, a1, a2, a3, a4) })
}
func Go6[A0, A1, A2, A3, A4, A5 any](f func(A0, A1, A2, A3, A4, A5), a0 A0, a1 A1, a2 A2, a3 A3, a4 A4, a5 A5) {
	Go(func() { f(a0, a1, a2, a3, a4, a5) })
}
func Go7[A0, A1, A2, A3, A4, A5, A6 any](f func(A0, A1, A2, A3, A4, A5, A6), a0 A0, a1 A1, a2 A2, a3 A3, a4 A4, a5 A5, a6 A6) {
	Go(func() { f(a0, a1, a2, a3, a4, a5, a6) })
}
func Go8[A0, A1, A2, A3, A4, A5, A6, A7 any](f func(A0, A1, A2, A3, A4, A5, A6, A7), a0 A0, a1 A1, a2 A2, a3 A3, a4 A4, a5 A5, a6 A6, a7 A7) {
	Go(func() { f(a0, a1, a2, a3, a4, a5, a6, a7) })
}
