// Package vsched is the controlled scheduler of the gosched engine.  Instrumented daemon code calls
// the shims below instead of `go`, channel operations, select, time and sync primitives.  In explore
// mode exactly one managed goroutine runs at a time; every shim operation is a scheduling point at
// which the explorer chooses the next thread.  Channels are *shadowed*: the real channel is never
// touched in explore mode, its buffer / parked senders / parked receivers / closed flag live in the
// scheduler, with Go's semantics.  Without an active scheduler the shims pass through to the real
// primitives (used by the free-running -race pass).
package vsched

import (
	"fmt"
	"os"
	"reflect"
	"runtime"
	"sort"
	"strings"
	"sync"
	"time"
)

type opKind int

const (
	opStart opKind = iota // thread created, not yet run
	opYield               // plain scheduling point (always enabled)
	opSend
	opRecv
	opSelect
	opSleep
	opWait // wait-group wait / mutex lock: enabled by a predicate
	opDone
)

type selCase struct {
	ch   uintptr
	cap  int
	send bool
	val  any
}

type thread struct {
	timer      bool // a vsched timer/ticker thread: never keeps an execution alive on its own
	s          *Sched
	daemon     bool
	id         int
	name       string
	wake       chan struct{}
	kind       opKind
	ch         uintptr
	chcap      int
	val        any           // value to send / received value
	ok         bool          // recv ok flag
	until      time.Duration // sleep deadline (virtual)
	pred       func() bool
	cases      []selCase
	hasDefault bool
	chosen     int // select result
	done       bool
	completed  bool // the pending op was completed by a partner; thread only needs to resume
	panicVal   any
	aborting   bool
}

type shadow struct {
	buf    []any
	closed bool
	keep   any // the real channel: keeps it reachable so that its address (the shadow's key) cannot be recycled by the
	// garbage collector for another channel made later in the same execution
}

// Point is one choice point of an execution.
type Point struct {
	Kind    string // "sched" | "select" | "env:<name>"
	N       int    // number of alternatives
	Chosen  int
	Cost    int // deviation cost of the chosen alternative
	AltCost []int
}

// Sched is one controlled execution.
type Sched struct {
	mu         sync.Mutex
	threads    []*thread
	cur        *thread
	yieldCh    chan *thread
	chans      map[uintptr]*shadow
	now        time.Duration
	prefix     []int
	Points     []Point
	Trace      []string
	Deadlock   bool
	Livelock   bool
	Panics     []string
	horizon    int
	DivergedAt int
	lastRun    int
}

var gids sync.Map // goroutine id -> *thread (threads of all concurrently running executions)

// BaseTime is the wall-clock value of virtual time zero.
var BaseTime = time.Unix(1_700_000_000, 0).UTC()

func cur() (*Sched, *thread) {
	v, ok := gids.Load(goid())
	if !ok {
		return nil, nil
	}
	t := v.(*thread)
	return t.s, t
}

// goid: the runtime overlay (rt/mkrt.py) adds runtime.VerifGoid(); parsing runtime.Stack output instead takes a
// global runtime lock and serialises all explorer workers.
func goid() uint64 { return runtime.VerifGoid() }

// Active reports whether a controlled execution is in progress on this goroutine.
func Active() bool {
	s, t := cur()
	return s != nil && t != nil
}

// ---- explorer side ------------------------------------------------------------------------------

// Run executes body as thread 0 under the scheduler, replaying prefix and then always taking
// alternative 0.  It returns when all threads are done, deadlocked, or the horizon is exceeded.
func Run(prefix []int, horizon int, body func()) *Sched {
	s := &Sched{yieldCh: make(chan *thread), chans: map[uintptr]*shadow{}, prefix: prefix, horizon: horizon, DivergedAt: -1, lastRun: -1}
	s.spawn("main", body)
	s.loop()
	return s
}

func (s *Sched) spawn(name string, f func()) *thread {
	t := &thread{s: s, id: len(s.threads), name: name, wake: make(chan struct{}), kind: opStart}
	s.threads = append(s.threads, t)
	go func() {
		gids.Store(goid(), t)
		defer gids.Delete(goid())
		<-t.wake // wait to be scheduled for the first time
		if t.aborting {
			t.done = true
			s.yieldCh <- t
			return
		}
		defer func() {
			if r := recover(); r != nil {
				if _, ok := r.(abortExec); !ok {
					t.panicVal = r
					buf := make([]byte, 4096)
					n := runtime.Stack(buf, false)
					s.Panics = append(s.Panics, fmt.Sprintf("thread %d (%s): %v\n%s", t.id, t.name, r, trimStack(string(buf[:n]))))
				}
			}
			t.kind = opDone
			t.done = true
			s.yieldCh <- t
		}()
		f()
	}()
	return t
}

type abortExec struct{}

func trimStack(st string) string {
	var out []string
	for _, l := range strings.Split(st, "\n") {
		if strings.Contains(l, "bandprotocol/chain") && !strings.Contains(l, "vsched") {
			out = append(out, strings.TrimSpace(l))
		}
		if len(out) >= 6 {
			break
		}
	}
	return strings.Join(out, " | ")
}

func (s *Sched) sh(ch uintptr) *shadow {
	x := s.chans[ch]
	if x == nil {
		x = &shadow{}
		s.chans[ch] = x
	}
	return x
}

// enabled reports whether thread t's pending operation can complete now.
func (s *Sched) enabled(t *thread) bool {
	if t.done {
		return false
	}
	if t.completed {
		return true
	}
	switch t.kind {
	case opStart, opYield:
		return true
	case opSend:
		return s.sendReady(t, t.ch, t.chcap)
	case opRecv:
		return s.recvReady(t, t.ch)
	case opSelect:
		if t.hasDefault {
			return true
		}
		for _, c := range t.cases {
			if c.send && s.sendReady(t, c.ch, c.cap) || !c.send && s.recvReady(t, c.ch) {
				return true
			}
		}
		return false
	case opSleep:
		return s.now >= t.until
	case opWait:
		return t.pred()
	}
	return false
}

func (s *Sched) sendReady(self *thread, ch uintptr, cap int) bool {
	x := s.sh(ch)
	if x.closed {
		return true // will panic, as Go does
	}
	if len(x.buf) < cap {
		return true
	}
	// rendezvous: a receiver parked on this channel
	return s.parkedReceiver(self, ch) != nil
}

func (s *Sched) recvReady(self *thread, ch uintptr) bool {
	x := s.sh(ch)
	if len(x.buf) > 0 || x.closed {
		return true
	}
	return s.parkedSender(self, ch) != nil
}

func (s *Sched) parkedReceiver(self *thread, ch uintptr) *thread {
	for _, o := range s.threads {
		if o == self || o.done || o.completed {
			continue
		}
		if o.kind == opRecv && o.ch == ch {
			return o
		}
		if o.kind == opSelect {
			for _, c := range o.cases {
				if !c.send && c.ch == ch {
					return o
				}
			}
		}
	}
	return nil
}

func (s *Sched) parkedSender(self *thread, ch uintptr) *thread {
	for _, o := range s.threads {
		if o == self || o.done || o.completed {
			continue
		}
		if o.kind == opSend && o.ch == ch {
			return o
		}
		if o.kind == opSelect {
			for _, c := range o.cases {
				if c.send && c.ch == ch {
					return o
				}
			}
		}
	}
	return nil
}

func (s *Sched) choose(kind string, n int, costs []int) int {
	idx := len(s.Points)
	c := 0
	if idx < len(s.prefix) {
		c = s.prefix[idx]
		if c >= n {
			if s.DivergedAt < 0 {
				s.DivergedAt = idx
			}
			c = 0
		}
	}
	s.Points = append(s.Points, Point{Kind: kind, N: n, Chosen: c, Cost: costs[c], AltCost: costs})
	return c
}

// perform completes thread t's pending operation on the shadow state.
func (s *Sched) perform(t *thread) {
	if t.completed {
		t.completed = false
		return
	}
	switch t.kind {
	case opSend:
		s.doSend(t, t.ch, t.chcap, t.val)
	case opRecv:
		t.val, t.ok = s.doRecv(t, t.ch)
	case opSelect:
		var ready []int
		for i, c := range t.cases {
			if c.send && s.sendReady(t, c.ch, c.cap) || !c.send && s.recvReady(t, c.ch) {
				ready = append(ready, i)
			}
		}
		if len(ready) == 0 {
			t.chosen = -1 // default
			return
		}
		k := 0
		if len(ready) > 1 {
			costs := make([]int, len(ready))
			for i := 1; i < len(costs); i++ {
				costs[i] = 1
			}
			k = s.choose("select", len(ready), costs)
		}
		ci := ready[k]
		t.chosen = ci
		c := t.cases[ci]
		if c.send {
			s.doSend(t, c.ch, c.cap, c.val)
		} else {
			t.val, t.ok = s.doRecv(t, c.ch)
		}
	}
}

func (s *Sched) doSend(t *thread, ch uintptr, cap int, v any) {
	x := s.sh(ch)
	if x.closed {
		t.panicVal = "send on closed channel"
		return
	}
	if r := s.parkedReceiver(t, ch); r != nil && len(x.buf) == 0 {
		// hand the value directly to the parked receiver
		r.val, r.ok = v, true
		if r.kind == opSelect {
			for i, c := range r.cases {
				if !c.send && c.ch == ch {
					r.chosen = i
					break
				}
			}
		}
		r.completed = true
		return
	}
	x.buf = append(x.buf, v)
}

func (s *Sched) doRecv(t *thread, ch uintptr) (any, bool) {
	x := s.sh(ch)
	if len(x.buf) > 0 {
		v := x.buf[0]
		x.buf = x.buf[1:]
		// a parked sender can now move its value into the buffer
		if snd := s.parkedSender(t, ch); snd != nil {
			var sv any
			if snd.kind == opSend {
				sv = snd.val
			} else {
				for i, c := range snd.cases {
					if c.send && c.ch == ch {
						sv = c.val
						snd.chosen = i
						break
					}
				}
			}
			x.buf = append(x.buf, sv)
			snd.completed = true
		}
		return v, true
	}
	if snd := s.parkedSender(t, ch); snd != nil {
		var sv any
		if snd.kind == opSend {
			sv = snd.val
		} else {
			for i, c := range snd.cases {
				if c.send && c.ch == ch {
					sv = c.val
					snd.chosen = i
					break
				}
			}
		}
		snd.completed = true
		return sv, true
	}
	if x.closed {
		return nil, false
	}
	panic("vsched: recv performed while not ready")
}

func (s *Sched) loop() {
	var watchdog *time.Timer
	for steps := 0; ; steps++ {
		if steps > s.horizon {
			s.Livelock = true
			s.abortAll()
			return
		}
		var en []*thread
		alive := 0
		for _, t := range s.threads {
			if !t.done {
				alive++
				if s.enabled(t) {
					en = append(en, t)
				}
			}
		}
		if alive == 0 {
			return
		}
		onlyTimers := true
		for _, t := range s.threads {
			if !t.done && !t.timer {
				onlyTimers = false
			}
		}
		if onlyTimers {
			s.abortAll() // every program thread has finished; pending timers and tickers do not keep the execution alive
			return
		}
		if len(en) == 0 {
			// advance virtual time to the earliest sleeper
			var next time.Duration = -1
			for _, t := range s.threads {
				if !t.done && t.kind == opSleep && (next < 0 || t.until < next) {
					next = t.until
				}
			}
			if next >= 0 {
				s.now = next
				continue
			}
			onlyDaemons := true
			for _, t := range s.threads {
				if !t.done && !t.daemon {
					onlyDaemons = false
				}
			}
			if onlyDaemons {
				s.abortAll() // quiescent: only harness-owned daemon threads remain parked
				return
			}
			s.Deadlock = true
			for _, t := range s.threads {
				if !t.done {
					s.Trace = append(s.Trace, fmt.Sprintf("deadlock: thread %d (%s) blocked in op %d", t.id, t.name, t.kind))
				}
			}
			s.abortAll()
			return
		}
		// canonical order: the thread that ran last first (if still enabled), then ascending ids
		sort.SliceStable(en, func(i, j int) bool {
			if en[i].id == s.lastRun {
				return true
			}
			if en[j].id == s.lastRun {
				return false
			}
			return en[i].id < en[j].id
		})
		lastEnabled := len(en) > 0 && en[0].id == s.lastRun
		costs := make([]int, len(en))
		for i := 1; i < len(costs); i++ {
			if lastEnabled {
				costs[i] = 1 // switching away from a runnable thread is a preemption
			}
		}
		k := 0
		if len(en) > 1 {
			k = s.choose("sched", len(en), costs)
		}
		t := en[k]
		s.perform(t)
		s.lastRun = t.id
		s.cur = t
		t.wake <- struct{}{}
		if watchdog == nil {
			watchdog = time.NewTimer(stuckAfter)
		} else {
			watchdog.Reset(stuckAfter)
		}
		select {
		case <-s.yieldCh:
			if !watchdog.Stop() {
				select {
				case <-watchdog.C:
				default:
				}
			}
		case <-watchdog.C:
			// never a property verdict: the code under test blocks in an operation the scheduler does not control
			fmt.Printf("HARNESS-ERROR: thread %d (%s) did not reach a scheduling point within %v of real time (it blocks in an operation the instrumenter did not rewrite)\n", t.id, t.name, stuckAfter)
			os.Exit(3)
		}
	}
}

// stuckAfter bounds the real time one thread may run between two scheduling points.
const stuckAfter = 120 * time.Second

// abortAll unwinds every parked thread so that no goroutine leaks between executions.
func (s *Sched) abortAll() {
	for _, t := range s.threads {
		if !t.done {
			t.kind = opDone
			t.aborting = true
			t.wake <- struct{}{}
			<-s.yieldCh
		}
	}
}

// ---- thread side ---------------------------------------------------------------------------------

func (s *Sched) park(t *thread) {
	if t.aborting {
		panic(abortExec{})
	}
	s.yieldCh <- t
	<-t.wake
	if t.aborting {
		panic(abortExec{})
	}
	if pv, ok := t.panicVal.(string); ok && pv != "" {
		t.panicVal = nil
		panic(pv)
	}
}

// Go starts f as a new managed thread.
func Go(f func()) {
	s, t := cur()
	if s == nil || t == nil {
		go f()
		return
	}
	if t.aborting {
		return
	}
	// no scheduling point here: the child becomes schedulable at the parent's next shared operation; code
	// between shared operations is thread-local and commutes
	s.spawn(fmt.Sprintf("go@%d", len(s.threads)), f)
}

// SetDaemon marks the calling thread as a harness-owned daemon: an execution in which only daemon
// threads remain, all parked, is quiescent (not a deadlock).
func SetDaemon() {
	_, t := cur()
	if t != nil {
		t.daemon = true
	}
}

// setTimerThread marks the calling thread as a timer thread (daemon that never keeps an execution alive).
func setTimerThread() {
	_, t := cur()
	if t != nil {
		t.daemon, t.timer = true, true
	}
}

// Yield is a plain scheduling point.
func Yield() {
	s, t := cur()
	if s == nil || t == nil {
		return
	}
	t.kind = opYield
	s.park(t)
}

// Env is an environment choice point with n alternatives; alternative 0 is the default answer,
// every other alternative costs one deviation.
func Env(name string, n int) int {
	s, t := cur()
	if s == nil || t == nil {
		return 0
	}
	// a choice point only (environment answers do not touch state shared between threads)
	if n <= 1 {
		return 0
	}
	costs := make([]int, n)
	for i := 1; i < n; i++ {
		costs[i] = 1
	}
	return s.choose("env:"+name, n, costs)
}

func chanID(ch any) (uintptr, int) {
	v := reflect.ValueOf(ch)
	id := v.Pointer()
	if s, t := cur(); s != nil && t != nil {
		if x := s.sh(id); x.keep == nil {
			x.keep = ch
		}
	}
	return id, v.Cap()
}

// Send is `ch <- v`.
func Send[T any](ch chan<- T, v T) {
	s, t := cur()
	if s == nil || t == nil {
		ch <- v
		return
	}
	t.kind = opSend
	t.ch, t.chcap = chanID(ch)
	t.val = v
	s.park(t)
}

// Recv is `<-ch`.
func Recv[T any](ch <-chan T) T {
	v, _ := Recv2(ch)
	return v
}

// Recv2 is `v, ok := <-ch`.
func Recv2[T any](ch <-chan T) (T, bool) {
	s, t := cur()
	if s == nil || t == nil {
		v, ok := <-ch
		return v, ok
	}
	t.kind = opRecv
	t.ch, t.chcap = chanID(ch)
	s.park(t)
	var zero T
	if !t.ok || t.val == nil {
		if t.ok {
			return zero, true
		}
		return zero, false
	}
	return t.val.(T), true
}

// Close is `close(ch)`.
func Close[T any](ch chan<- T) {
	s, t := cur()
	if s == nil || t == nil {
		close(ch)
		return
	}
	t.kind = opYield
	s.park(t)
	id, _ := chanID(ch)
	x := s.sh(id)
	if x.closed {
		panic("close of closed channel")
	}
	x.closed = true
}

// RecvCase is a receive case of a select.
type RecvCase[T any] struct {
	ch  <-chan T
	val T
	ok  bool
}

// NewRecv builds a receive case.
func NewRecv[T any](ch <-chan T) *RecvCase[T] { return &RecvCase[T]{ch: ch} }

// Val is the received value.
func (c *RecvCase[T]) Val() T { return c.val }

// Ok is the received ok flag.
func (c *RecvCase[T]) Ok() bool { return c.ok }

func (c *RecvCase[T]) desc() selCase { id, cp := chanID(c.ch); return selCase{ch: id, cap: cp} }
func (c *RecvCase[T]) set(v any, ok bool) {
	c.ok = ok
	if v != nil {
		c.val = v.(T)
	}
}
func (c *RecvCase[T]) real() reflect.SelectCase {
	return reflect.SelectCase{Dir: reflect.SelectRecv, Chan: reflect.ValueOf(c.ch)}
}

// SendCase is a send case of a select.
type SendCase[T any] struct {
	ch  chan<- T
	val T
}

// NewSend builds a send case.
func NewSend[T any](ch chan<- T, v T) *SendCase[T] { return &SendCase[T]{ch: ch, val: v} }

func (c *SendCase[T]) desc() selCase {
	id, cp := chanID(c.ch)
	return selCase{ch: id, cap: cp, send: true, val: c.val}
}
func (c *SendCase[T]) set(any, bool) {}
func (c *SendCase[T]) real() reflect.SelectCase {
	return reflect.SelectCase{Dir: reflect.SelectSend, Chan: reflect.ValueOf(c.ch), Send: reflect.ValueOf(c.val)}
}

// Case is a select case.
type Case interface {
	desc() selCase
	set(v any, ok bool)
	real() reflect.SelectCase
}

// Select is `select { ... }`; it returns the index of the chosen case, or -1 for default.
func Select(hasDefault bool, cases ...Case) int {
	s, t := cur()
	if s == nil || t == nil {
		var rc []reflect.SelectCase
		for _, c := range cases {
			rc = append(rc, c.real())
		}
		if hasDefault {
			rc = append(rc, reflect.SelectCase{Dir: reflect.SelectDefault})
		}
		i, v, ok := reflect.Select(rc)
		if hasDefault && i == len(cases) {
			return -1
		}
		if rc[i].Dir == reflect.SelectRecv {
			if ok {
				cases[i].set(v.Interface(), true)
			} else {
				cases[i].set(nil, false)
			}
		}
		return i
	}
	t.kind = opSelect
	t.cases = t.cases[:0]
	for _, c := range cases {
		t.cases = append(t.cases, c.desc())
	}
	t.hasDefault = hasDefault
	t.chosen = -1
	s.park(t)
	if t.chosen >= 0 && !t.cases[t.chosen].send {
		cases[t.chosen].set(t.val, t.ok)
	}
	return t.chosen
}

// ---- virtual time --------------------------------------------------------------------------------

// ClockOverride, when set, is the clock used outside a controlled execution (the kvmc closed-loop
// check of C20 drives the daemon step by step under its own virtual clock).
var ClockOverride func() time.Time

// Now is time.Now under virtual time.
func Now() time.Time {
	s, t := cur()
	if s == nil || t == nil {
		if ClockOverride != nil {
			return ClockOverride()
		}
		return time.Now()
	}
	return BaseTime.Add(s.now)
}

// Since is time.Since under virtual time.
func Since(t0 time.Time) time.Duration { return Now().Sub(t0) }

// Sleep is time.Sleep under virtual time.
func Sleep(d time.Duration) {
	s, t := cur()
	if s == nil || t == nil {
		time.Sleep(d)
		return
	}
	t.kind = opSleep
	t.until = s.now + d
	s.park(t)
}

// WaitFor blocks the thread until pred holds (used by the sync shims).
func WaitFor(pred func() bool) {
	s, t := cur()
	if s == nil || t == nil {
		for !pred() {
			runtime.Gosched()
		}
		return
	}
	t.kind = opWait
	t.pred = pred
	s.park(t)
}

// VirtualNow returns the virtual clock of the active execution.
func VirtualNow() time.Duration {
	s, _ := cur()
	if s == nil {
		return 0
	}
	return s.now
}

// ---- timers under virtual time ------------------------------------------------------------------------
// A timer is a daemon thread that sleeps (virtual time) and then does a non-blocking send on the timer's channel, which
// has capacity 1 like the runtime's.  Outside a controlled execution the real timers are used.

// After is time.After.
func After(d time.Duration) <-chan time.Time { return NewTimer(d).C }

// Tick is time.Tick.
func Tick(d time.Duration) <-chan time.Time { return NewTicker(d).C }

// Timer is time.Timer.
type Timer struct {
	C       <-chan time.Time
	c       chan time.Time
	rt      *time.Timer
	gen     int
	stopped bool
	fired   bool
}

func (t *Timer) arm(d time.Duration) {
	t.gen++
	gen := t.gen
	t.stopped, t.fired = false, false
	Go(func() {
		setTimerThread()
		Sleep(d)
		if t.stopped || t.gen != gen {
			return
		}
		t.fired = true
		Select(true, NewSend[time.Time](t.c, Now()))
	})
}

// NewTimer is time.NewTimer.
func NewTimer(d time.Duration) *Timer {
	if s, th := cur(); s == nil || th == nil {
		rt := time.NewTimer(d)
		return &Timer{C: rt.C, rt: rt}
	}
	c := make(chan time.Time, 1)
	t := &Timer{C: c, c: c}
	t.arm(d)
	return t
}

// Stop is (*time.Timer).Stop.
func (t *Timer) Stop() bool {
	if t.rt != nil {
		return t.rt.Stop()
	}
	was := !t.stopped && !t.fired
	t.stopped = true
	return was
}

// Reset is (*time.Timer).Reset.
func (t *Timer) Reset(d time.Duration) bool {
	if t.rt != nil {
		return t.rt.Reset(d)
	}
	was := !t.stopped && !t.fired
	t.arm(d)
	return was
}

// Ticker is time.Ticker.
type Ticker struct {
	C       <-chan time.Time
	c       chan time.Time
	rt      *time.Ticker
	gen     int
	stopped bool
}

func (t *Ticker) arm(d time.Duration) {
	t.gen++
	gen := t.gen
	t.stopped = false
	Go(func() {
		setTimerThread()
		for {
			Sleep(d)
			if t.stopped || t.gen != gen {
				return
			}
			Select(true, NewSend[time.Time](t.c, Now()))
		}
	})
}

// NewTicker is time.NewTicker.
func NewTicker(d time.Duration) *Ticker {
	if s, th := cur(); s == nil || th == nil {
		rt := time.NewTicker(d)
		return &Ticker{C: rt.C, rt: rt}
	}
	c := make(chan time.Time, 1)
	t := &Ticker{C: c, c: c}
	t.arm(d)
	return t
}

// Stop is (*time.Ticker).Stop.
func (t *Ticker) Stop() {
	if t.rt != nil {
		t.rt.Stop()
		return
	}
	t.stopped = true
}

// Reset is (*time.Ticker).Reset.
func (t *Ticker) Reset(d time.Duration) {
	if t.rt != nil {
		t.rt.Reset(d)
		return
	}
	t.arm(d)
}
