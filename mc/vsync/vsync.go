// Package vsync replaces "sync" in instrumented daemon code: every operation is a scheduling point
// of the controlled scheduler; blocking operations (Lock, Wait) park the thread until enabled.
package vsync

import (
	"sync"

	"github.com/bandprotocol/chain/v3/zzverif/vsched"
)

// Map is sync.Map with scheduling points.
type Map struct{ m sync.Map }

func (m *Map) Load(k any) (any, bool)             { vsched.Yield(); return m.m.Load(k) }
func (m *Map) Store(k, v any)                     { vsched.Yield(); m.m.Store(k, v) }
func (m *Map) Delete(k any)                       { vsched.Yield(); m.m.Delete(k) }
func (m *Map) LoadOrStore(k, v any) (any, bool)   { vsched.Yield(); return m.m.LoadOrStore(k, v) }
func (m *Map) LoadAndDelete(k any) (any, bool)    { vsched.Yield(); return m.m.LoadAndDelete(k) }
func (m *Map) Range(f func(k, v any) bool)        { vsched.Yield(); m.m.Range(f) }
func (m *Map) Swap(k, v any) (any, bool)          { vsched.Yield(); return m.m.Swap(k, v) }
func (m *Map) CompareAndSwap(k, o, n any) bool    { vsched.Yield(); return m.m.CompareAndSwap(k, o, n) }
func (m *Map) CompareAndDelete(k, o any) bool     { vsched.Yield(); return m.m.CompareAndDelete(k, o) }

// Mutex is sync.Mutex under the scheduler.
type Mutex struct {
	real   sync.Mutex
	locked bool
}

func (m *Mutex) Lock() {
	if !vsched.Active() {
		m.real.Lock()
		return
	}
	vsched.WaitFor(func() bool { return !m.locked })
	m.locked = true
}

func (m *Mutex) Unlock() {
	if !vsched.Active() {
		m.real.Unlock()
		return
	}
	m.locked = false
	vsched.Yield()
}

// RWMutex is modelled as a plain mutex (conservative).
type RWMutex struct{ Mutex }

func (m *RWMutex) RLock()   { m.Lock() }
func (m *RWMutex) RUnlock() { m.Unlock() }

// WaitGroup is sync.WaitGroup under the scheduler.
type WaitGroup struct {
	real sync.WaitGroup
	n    int
}

func (w *WaitGroup) Add(d int) {
	if !vsched.Active() {
		w.real.Add(d)
		return
	}
	vsched.Yield()
	w.n += d
}

func (w *WaitGroup) Done() { w.Add(-1) }

func (w *WaitGroup) Wait() {
	if !vsched.Active() {
		w.real.Wait()
		return
	}
	vsched.WaitFor(func() bool { return w.n <= 0 })
}

// Once is sync.Once under the scheduler: a second caller parks (visibly to the scheduler) until the first call of f
// has returned, instead of blocking on a real mutex while the first caller is itself parked inside f.
type Once struct {
	real    sync.Once
	running bool
	done    bool
}

func (o *Once) Do(f func()) {
	if !vsched.Active() {
		o.real.Do(f)
		return
	}
	vsched.Yield()
	if o.done {
		return
	}
	if o.running {
		vsched.WaitFor(func() bool { return o.done })
		return
	}
	o.running = true
	defer func() { o.done = true }()
	f()
}
