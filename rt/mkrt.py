#!/usr/bin/env python3
"""Produces patched copies of GOROOT runtime/map.go and time/time.go plus an added runtime file, and an overlay
fragment build/rt/overlay.json.  The patches add hooks only (nothing removed):
  runtime.mapiterinit: after `r := uintptr(rand())`:  if VerifMapIterHook != nil { r = VerifMapIterHook(r, h.B, h.count) }
  time.Now:            sec += VerifClockSkewSec (package var, default 0)
"""
import os, subprocess, sys, json
root = os.environ.get('VERIF_ROOT') or os.path.dirname(os.path.dirname(os.path.abspath(__file__)))
goroot = subprocess.check_output(['go', 'env', 'GOROOT'], text=True).strip()
out = os.path.join(os.environ.get('VERIF_BUILD') or os.path.join(root, 'build'), 'rt')
os.makedirs(out, exist_ok=True)
m = open(os.path.join(goroot, 'src/runtime/map.go')).read()
needle = "\tr := uintptr(rand())\n"
if m.count(needle) != 1:
    sys.exit("mkrt: unexpected runtime/map.go (needle count %d) for %s" % (m.count(needle), goroot))
m = m.replace(needle, needle + "\tif VerifMapIterHook != nil {\n\t\tr = VerifMapIterHook(r, h.B, h.count)\n\t}\n")
open(os.path.join(out, 'map.go'), 'w').write(m)
t = open(os.path.join(goroot, 'src/time/time.go')).read()
needle = "func Now() Time {\n\tsec, nsec, mono := now()\n"
if t.count(needle) != 1:
    sys.exit("mkrt: unexpected time/time.go")
t = t.replace(needle, needle + "\tsec += VerifClockSkewSec\n")
t += "\n// VerifClockSkewSec is added to the wall clock read by Now (verification hook; default 0).\nvar VerifClockSkewSec int64\n"
open(os.path.join(out, 'time.go'), 'w').write(t)
open(os.path.join(out, 'zz_verifhook.go'), 'w').write('''package runtime

// VerifMapIterHook, when non-nil, replaces the random iteration seed of every map iteration
// (verification hook added by the /verif overlay).  B is log2 of the bucket count, count the map size.
var VerifMapIterHook func(r uintptr, B uint8, count int) uintptr

// VerifGoid returns the id of the calling goroutine.
func VerifGoid() uint64 { return getg().goid }
''')
ov = {"Replace": {
    os.path.join(goroot, 'src/runtime/map.go'): os.path.join(out, 'map.go'),
    os.path.join(goroot, 'src/runtime/zz_verifhook.go'): os.path.join(out, 'zz_verifhook.go'),
    os.path.join(goroot, 'src/time/time.go'): os.path.join(out, 'time.go'),
}}
json.dump(ov, open(os.path.join(out, 'overlay.json'), 'w'), indent=1)
print("mkrt: ok", goroot)
